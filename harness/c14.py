"""C14: lifespan ordering, failure handling, state isolation.
(a) the real Lifespan helpers of both workers, driven exactly as worker_serve drives them (start
    the task, wait_for_startup, check the task, wait_for_shutdown, cancel), against model.Lifespan
    on generated application scripts (complete, failed, raise, hang, return early, unknown message,
    at startup and at shutdown), under virtual time;
(b) the real worker_serve of both workers on loopback sockets: connection attempts while startup is
    in progress, request scopes vs. lifespan messages, shutdown after the connections have drained,
    per-connection copies of the lifespan state."""
from __future__ import annotations

import random

from . import common as C
from . import rig as R
from . import rworker as W

PROP = "C14"
PREAMBLE = ("From Coq Require Import ZArith List.\nFrom HV Require Import lib.Obs model.Lifespan.\nImport ListNotations.\nOpen Scope Z_scope.\n"
            "Definition vout (o : outcome) : val := VZ (match o with Proceed => 0 | AbortFailed => 1 | AbortTimeout => 2 end).\n"
            "Definition vgot (l : list bool) : val := VL (map (fun b : bool => VZ (if b then 1 else 0)) l).\n"
            "Definition run_lifespan (script : list lact) : val :=\n"
            "  let '(o1, s1) := startup script in\n"
            "  match o1 with\n"
            "  | Proceed => let '(o2, s2) := shutdown s1 in VL [vout o1; vout o2; vgot (ls_got s2); VZ (Z.of_nat (ls_warned s2))]\n"
            "  | _ => VL [vout o1]\n"
            "  end.\n")
ACT = {"recv": "LRecv", "raise": "LRaise", "return": "LReturn", "hang": "LHang",
       "lifespan.startup.complete": "LSend LStartupComplete", "lifespan.startup.failed": "LSend LStartupFailed",
       "lifespan.shutdown.complete": "LSend LShutdownComplete", "lifespan.shutdown.failed": "LSend LShutdownFailed",
       "lifespan.bogus": "LSend LOther"}
OUT = {"proceed": 0, "failed": 1, "timeout": 2}


def gen_script(rng):
    kind = rng.random()
    if kind < 0.35:
        s = ["recv", "lifespan.startup.complete", "recv", "lifespan.shutdown.complete"]
        # perturb
        for _ in range(rng.choice([0, 0, 1, 2])):
            i = rng.randrange(len(s) + 1)
            s.insert(i, rng.choice(list(ACT)))
        if rng.random() < 0.3:
            del s[rng.randrange(len(s)):]
        return s
    return [rng.choice(list(ACT)) for _ in range(rng.randint(0, 6))]


def make_app(script, got, sleep_forever):
    async def app(scope, receive, send):
        for a in script:
            if a == "recv":
                m = await receive()
                got.append(1 if m["type"] == "lifespan.shutdown" else 0)
            elif a == "raise":
                raise RuntimeError("lifespan app")
            elif a == "return":
                return
            elif a == "hang":
                await sleep_forever()
            else:
                await send({"type": a, "message": "x"})

    return app


class CountLog(R.RecLog):
    def __init__(self):
        super().__init__([])
        self.warned = 0

    async def warning(self, *a, **k):
        self.warned += 1

    async def exception(self, *a, **k):
        self.warned += 1


def classify(exc):
    from hypercorn.utils import LifespanFailureError, LifespanTimeoutError

    excs = [exc]
    found = []
    while excs:
        e = excs.pop()
        if isinstance(e, BaseExceptionGroup):
            excs.extend(e.exceptions)
        else:
            found.append(e)
    if any(isinstance(e, LifespanFailureError) for e in found):
        return "failed"
    if any(isinstance(e, LifespanTimeoutError) for e in found):
        return "timeout"
    return "error:" + type(found[0]).__name__


def drive_asyncio(script):
    import asyncio

    from hypercorn.app_wrappers import ASGIWrapper
    from hypercorn.asyncio.lifespan import Lifespan

    loop = W.VirtualLoop()
    asyncio.set_event_loop(loop)
    cfg = R.make_config(())
    log = CountLog()
    cfg._log = log
    cfg.startup_timeout = 3.0
    cfg.shutdown_timeout = 3.0
    got = []

    async def forever():
        await asyncio.Event().wait()

    async def main():
        lifespan = Lifespan(ASGIWrapper(make_app(script, got, forever)), cfg, loop, {})
        task = loop.create_task(lifespan.handle_lifespan())
        out = ["proceed"]
        try:
            await lifespan.wait_for_startup()
            if task.done() and task.exception() is not None:
                raise task.exception()
        except BaseException as e:  # noqa: BLE001
            out = [classify(e)]
            task.cancel()
            try:
                await task
            except BaseException:  # noqa: BLE001
                pass
            return out
        try:
            await asyncio.sleep(1.0)          # serving
            if task.done() and not task.cancelled() and task.exception() is not None:
                pass                          # worker_serve only looks at the task again when it awaits it below
            await lifespan.wait_for_shutdown()
            task.cancel()
            await task
            out.append("proceed")
        except asyncio.CancelledError:
            out.append("proceed")
        except BaseException as e:  # noqa: BLE001
            out.append(classify(e))
            task.cancel()
        return out

    try:
        out = loop.run_until_complete(main())
    except W.Quiescent:
        out = ["deadlock"]
    finally:
        loop.close()
        asyncio.set_event_loop(None)
    return out, list(got), log.warned


def drive_trio(script):
    import trio
    import trio.testing

    from hypercorn.app_wrappers import ASGIWrapper
    from hypercorn.trio.lifespan import Lifespan

    cfg = R.make_config(())
    log = CountLog()
    cfg._log = log
    cfg.startup_timeout = 3.0
    cfg.shutdown_timeout = 3.0
    got = []
    out = []

    async def main():
        lifespan = Lifespan(ASGIWrapper(make_app(script, got, trio.sleep_forever)), cfg, {})
        phase = ["startup"]
        try:
            async with trio.open_nursery() as nursery:
                await nursery.start(lifespan.handle_lifespan)
                await lifespan.wait_for_startup()
                await trio.sleep(1.0)         # serving (a checkpoint: a failed lifespan task cancels the server here)
                out.append("proceed")
                phase[0] = "shutdown"
                await lifespan.wait_for_shutdown()
                nursery.cancel_scope.cancel()
            out.append("proceed")
        except BaseException as e:  # noqa: BLE001
            c = classify(e)
            if phase[0] == "startup":
                out[:] = [c]
            else:
                out.append(c)

    trio.run(main, clock=trio.testing.MockClock(autojump_threshold=0))
    return out, list(got), log.warned


def obs(out, got, warned):
    if out[0] != "proceed":
        return [OUT.get(out[0], out[0])]
    return [0, OUT.get(out[1], out[1]), got, warned]


# ------------------------------------------------------------------ (b) the real worker_serve on loopback sockets
import socket
import threading
import time


def free_port():
    s = socket.socket()
    s.bind(("127.0.0.1", 0))
    p = s.getsockname()[1]
    s.close()
    return p


class Served:
    """A real hypercorn server (asyncio or trio worker_serve via hypercorn.<backend>.serve) in a thread."""

    def __init__(self, backend, app, **cfg):
        from hypercorn.config import Config

        self.backend = backend
        self.port = free_port()
        self.config = Config()
        self.config.bind = [f"127.0.0.1:{self.port}"]
        self.config.accesslog = None
        self.config.errorlog = None
        # (trio only) serve() without a shutdown trigger, the way `trio.run(serve, app, config)` is documented
        self.no_trigger = bool(cfg.pop("_no_trigger", False))
        self.mode = cfg.pop("_mode", None)            # "wsgi": the application is a WSGI callable
        for k, v in cfg.items():
            setattr(self.config, k, v)
        self.app = app
        self.trigger = threading.Event()
        self.result = {"returned_at": None, "error": None}
        self.t0 = time.monotonic()
        self.thread = threading.Thread(target=self._run, daemon=True)
        self.thread.start()

    def now(self):
        return time.monotonic() - self.t0

    def _run(self):
        try:
            if self.backend == "asyncio":
                import asyncio

                from hypercorn.asyncio import serve

                async def trig():
                    while not self.trigger.is_set():
                        await asyncio.sleep(0.01)

                asyncio.run(serve(self.app, self.config, shutdown_trigger=trig, mode=self.mode))
            else:
                import trio

                from hypercorn.trio import serve

                async def trig():
                    while not self.trigger.is_set():
                        await trio.sleep(0.01)

                if self.no_trigger:
                    trio.run(lambda: serve(self.app, self.config))
                else:
                    trio.run(lambda: serve(self.app, self.config, shutdown_trigger=trig, mode=self.mode))
        except BaseException as e:  # noqa: BLE001
            self.result["error"] = e
        finally:
            self.result["returned_at"] = self.now()

    def connect(self, timeout=1.0):
        s = socket.create_connection(("127.0.0.1", self.port), timeout=timeout)
        return s

    def try_connect(self):
        try:
            s = self.connect(0.3)
        except OSError:
            return None
        return s

    def wait_listening(self, limit=3.0):
        end = time.monotonic() + limit
        while time.monotonic() < end:
            s = self.try_connect()
            if s is not None:
                return s
            if self.result["returned_at"] is not None:
                return None
            time.sleep(0.01)
        return None

    def stop(self, limit=10.0):
        self.trigger.set()
        self.thread.join(limit)
        return not self.thread.is_alive()


def get(sock, path=b"/", close=False, timeout=3.0):
    """One HTTP/1.1 request on an open socket; returns (status, body) or None if the server closed."""
    import h11

    sock.settimeout(timeout)
    c = h11.Connection(h11.CLIENT)
    sock.sendall(c.send(h11.Request(method="GET", target=path, headers=[("host", "x")] + ([("connection", "close")] if close else []))))
    sock.sendall(c.send(h11.EndOfMessage()))
    status, body = None, b""
    while True:
        try:
            ev = c.next_event()
        except h11.RemoteProtocolError:
            return None if status is None else (status, body, "closed")     # the server closed mid-response
        if ev is h11.NEED_DATA:
            try:
                data = sock.recv(65536)
            except (socket.timeout, OSError):
                return ("timeout", body) if status is None else (status, body, "timeout")
            c.receive_data(data)
            continue
        if isinstance(ev, h11.Response):
            status = ev.status_code
        elif isinstance(ev, h11.Data):
            body += bytes(ev.data)
        elif isinstance(ev, h11.EndOfMessage):
            return status, body
        elif isinstance(ev, h11.ConnectionClosed):
            return None if status is None else (status, body, "closed")


def lifespan_app(events, startup_delay=0.0, startup="complete", shutdown="complete", request_delay=0.0, sleeper=None):
    """ASGI app recording a time line; events is a list of (t, what)."""
    import time as _t

    def mark(what):
        events.append((_t.monotonic(), what))

    async def sleep(d):
        import sniffio

        if sniffio.current_async_library() == "trio":
            import trio

            await trio.sleep(d)
        else:
            import asyncio

            await asyncio.sleep(d)

    async def app(scope, receive, send):
        if scope["type"] == "lifespan":
            scope["state"]["x"] = 1
            scope["state"]["box"] = []
            m = await receive()
            mark(m["type"])
            if startup_delay:
                await sleep(startup_delay)
            if startup == "complete":
                await send({"type": "lifespan.startup.complete"})
                mark("startup.complete sent")
            elif startup == "failed":
                await send({"type": "lifespan.startup.failed", "message": "no"})
            elif startup == "failed-bare":
                await send({"type": "lifespan.startup.failed"})          # "message" is optional (ASGI lifespan spec)
            elif startup == "failed-nested":
                # as frameworks built on anyio do: the message is sent from a child task, so the failure reaches the
                # server wrapped in an exception group
                import sniffio

                async def child():
                    await send({"type": "lifespan.startup.failed", "message": "no"})

                if sniffio.current_async_library() == "trio":
                    import trio

                    async with trio.open_nursery() as nursery:
                        nursery.start_soon(child)
                else:
                    import asyncio

                    async with asyncio.TaskGroup() as tg:
                        tg.create_task(child())
            elif startup == "raise":
                raise RuntimeError("no lifespan")
            elif startup == "hang":
                await sleep(1000)
            m = await receive()
            mark(m["type"])
            if shutdown == "complete":
                await send({"type": "lifespan.shutdown.complete"})
            elif shutdown == "hang":
                await sleep(1000)
            return
        if scope["type"] == "http":
            mark("request " + scope["path"])
            st = scope.get("state")
            seen = None if st is None else st.get("x")
            if st is not None:
                st["x"] = st.get("x", 0) + 100            # a connection scribbling on its own copy
                st["mine"] = scope["path"]
            while True:
                m = await receive()
                if m["type"] != "http.request" or not m.get("more_body"):
                    break
            if request_delay:
                await sleep(request_delay)
            body = repr((seen, sorted(st) if st is not None else None)).encode()
            await send({"type": "http.response.start", "status": 200, "headers": [(b"content-length", str(len(body)).encode())]})
            await send({"type": "http.response.body", "body": body})
            mark("response " + scope["path"])

    return app


def serve_cases(backend):
    """The worker_serve level checks of C14 on one backend; returns (descriptions, failures)."""
    fails, descs = [], []

    def fail(sig, **kw):
        fails.append({"signature": sig, "backend": backend, **kw})

    # 1. ordering: nothing accepts before startup.complete
    ev = []
    sv = Served(backend, lifespan_app(ev, startup_delay=0.4))
    time.sleep(0.15)
    t_early = time.monotonic()
    early = sv.try_connect()
    if early is not None:
        r = get(early, b"/early", timeout=1.0)
        done = [t for t, w in ev if w == "startup.complete sent"]
        if not done or t_early < done[0]:       # (a loaded machine may reach this line only after startup has completed)
            fail("accepted-before-startup-complete", answer=repr(r))
        early.close()
    s = sv.wait_listening()
    if s is None:
        fail("never-listening-after-startup", error=repr(sv.result["error"]))
    else:
        r1 = get(s, b"/a")
        s2 = sv.connect()
        r2 = get(s2, b"/b")
        r3 = get(s, b"/c")
        # 5. state isolation: every connection sees the lifespan's x == 1, its own scribbles stay its own
        if not (r1 and r2 and r3) or r1[0] != 200:
            fail("request-not-served", answers=repr((r1, r2, r3)))
        else:
            if r1[1] != b"(1, ['box', 'mine', 'x'])" or r2[1] != b"(1, ['box', 'mine', 'x'])":
                fail("lifespan-state-not-copied-per-connection", answers=repr((r1, r2)))
            if r3[1] != b"(101, ['box', 'mine', 'x'])":
                fail("connection-state-not-kept-within-connection", answer=repr(r3))
        s.close()
        s2.close()
    stopped = sv.stop()
    order = [w for _, w in ev]
    descs.append({"case": "ordering", "backend": backend, "events": order})
    if not stopped:
        fail("serve-did-not-return")
    if order[:2] != ["lifespan.startup", "startup.complete sent"] or any(w.startswith("request") for w in order[:2]):
        fail("request-scope-before-startup", order=order)
    if order.count("lifespan.shutdown") != 1 or order[-1] != "lifespan.shutdown":
        fail("lifespan-shutdown-count-or-order", order=order)
    if sv.result["error"] is not None:
        fail("serve-raised", error=repr(sv.result["error"]))

    # 2./3. startup failed / timed out: abort with an error, nothing served
    for kind, cfgkw in (("failed", {}), ("failed-bare", {}), ("failed-nested", {}), ("hang", {"startup_timeout": 0.3})):
        ev = []
        sv = Served(backend, lifespan_app(ev, startup=kind), **cfgkw)
        sv.thread.join(3.0)
        descs.append({"case": "startup-" + kind, "backend": backend, "error": classify(sv.result["error"]) if sv.result["error"] else None})
        if sv.thread.is_alive():
            s = sv.try_connect()
            fail("server-not-aborted-on-startup-" + kind, listening=s is not None)
            sv.stop()
        else:
            want = "failed" if kind.startswith("failed") else "timeout"
            if sv.result["error"] is None or classify(sv.result["error"]) != want:
                fail("startup-" + kind + "-not-reported", error=repr(sv.result["error"]))
            if any(w.startswith("request") for _, w in ev):
                fail("served-after-startup-" + kind)

    # raise = no lifespan support: serve anyway
    ev = []
    sv = Served(backend, lifespan_app(ev, startup="raise"))
    s = sv.wait_listening()
    if s is None or get(s, b"/n") is None:
        fail("not-serving-without-lifespan-support", error=repr(sv.result["error"]))
    if s is not None:
        s.close()
    if not sv.stop():
        fail("serve-did-not-return")
    descs.append({"case": "no-lifespan-support", "backend": backend})

    # 4. shutdown only after the connections have drained
    ev = []
    sv = Served(backend, lifespan_app(ev, request_delay=0.5), graceful_timeout=3.0)
    s = sv.wait_listening()
    if s is not None:
        out = {}
        th = threading.Thread(target=lambda: out.setdefault("r", get(s, b"/slow", timeout=5.0)))
        th.start()
        time.sleep(0.15)
        sv.trigger.set()
        th.join(6.0)
        sv.thread.join(6.0)
        order = [w for _, w in ev]
        descs.append({"case": "drain", "backend": backend, "events": order, "answer": repr(out.get("r"))})
        if out.get("r") is None or out["r"][0] != 200:
            fail("in-flight-request-not-completed", answer=repr(out.get("r")))
        if "response /slow" in order and "lifespan.shutdown" in order and order.index("lifespan.shutdown") < order.index("response /slow"):
            fail("lifespan-shutdown-before-connections-drained", order=order)
        if order.count("lifespan.shutdown") != 1:
            fail("lifespan-shutdown-count", order=order)
        s.close()
    else:
        fail("never-listening", error=repr(sv.result["error"]))

    # 4b. ... or the graceful timeout has elapsed: a request that outlives it does not keep lifespan.shutdown away
    ev = []
    sv = Served(backend, lifespan_app(ev, request_delay=2.5), graceful_timeout=0.4, shutdown_timeout=1.0)
    s = sv.wait_listening()
    if s is not None:
        th = threading.Thread(target=lambda: get(s, b"/stuck", timeout=4.0))
        th.start()
        time.sleep(0.15)
        t_trigger = time.monotonic()
        sv.trigger.set()
        sv.thread.join(6.0)
        th.join(5.0)
        order = [w for _, w in ev]
        shut = [t for t, w in ev if w == "lifespan.shutdown"]
        descs.append({"case": "graceful-timeout-elapsed", "backend": backend, "events": order,
                      "shutdown_after": [round(t - t_trigger, 3) for t in shut]})
        if sv.thread.is_alive():
            fail("serve-did-not-return")
            sv.stop()
        if len(shut) != 1:
            fail("lifespan-shutdown-count", order=order, case="a request outlives graceful_timeout")
        elif shut[0] - t_trigger < 0.4 - 0.05:
            fail("lifespan-shutdown-before-graceful-timeout", after=round(shut[0] - t_trigger, 3))
        s.close()
    else:
        fail("never-listening", error=repr(sv.result["error"]))
    return descs, fails


SENSIBLE1 = ["lifespan.startup.complete", "lifespan.startup.failed", "raise", "hang", "return", "lifespan.bogus"]
SENSIBLE2 = ["lifespan.shutdown.complete", "lifespan.shutdown.failed", "raise", "hang", "return", "lifespan.bogus"]


def family():
    fam = [["recv", x] for x in SENSIBLE1 if x != "lifespan.startup.complete"]
    fam += [["recv", "lifespan.startup.complete", "recv", y] for y in SENSIBLE2]
    fam += [[x] for x in ("raise", "return", "hang", "lifespan.startup.complete", "lifespan.startup.failed")]
    fam += [["recv", "lifespan.startup.complete", x] for x in ("hang", "return", "raise", "lifespan.bogus")]
    fam += [[], ["recv"], ["recv", "recv"], ["lifespan.startup.complete", "recv", "recv", "lifespan.shutdown.complete"]]
    return fam


def script_term(s):
    return "(@nil lact)" if not s else "[" + "; ".join(ACT[x] for x in s) + "]"


def late_failure(s):
    """A failure message after startup has completed: the trio worker loses it (open finding F44)."""
    if "lifespan.startup.complete" not in s:
        return False
    i = s.index("lifespan.startup.complete")
    return any(x in ("lifespan.shutdown.failed", "lifespan.startup.failed") for x in s[i + 1:])


def odd(s):
    """Messages of the wrong phase, on which the model is not validated (delivery races with the cancellation of the task)."""
    for j, x in enumerate(s):
        if x.startswith("lifespan.shutdown") and s[:j].count("recv") < 2:
            return True          # answers lifespan.shutdown before it was asked
    if "lifespan.startup.complete" in s:
        i = s.index("lifespan.startup.complete")
        return any(x == "lifespan.startup.complete" for x in s[i + 1:])
    return False


def run(ctx):
    rng = ctx.rng
    scripts = family()
    for _ in range(ctx.scale(300, 1500, 400)):
        s = gen_script(rng)
        if not odd(s):
            scripts.append(s)
    cases, metas, oracle_failures = [], [], []
    for s in scripts:
        a = obs(*drive_asyncio(s))
        t = obs(*drive_trio(s))
        cases.append((script_term(s), C.V(a)))
        metas.append({"script": s, "backend": "asyncio", "obs": a})
        if late_failure(s):
            if a != t:
                oracle_failures.append({"signature": "F44:trio-loses-late-lifespan-failure", "script": s, "asyncio": a, "trio": t})
        else:
            cases.append((script_term(s), C.V(t)))
            metas.append({"script": s, "backend": "trio", "obs": t})
    disagreements, err = [], None
    if ctx.mode != "search":
        failing, err = C.coq_failing(PROP, PREAMBLE, "list lact", "run_lifespan", cases)
        for k in failing[:5]:
            disagreements.append({"case": metas[k], "model": C.coq_show(PROP, PREAMBLE, "run_lifespan", cases[k][0])[-200:]})
        disagreements.extend({"case": metas[k]} for k in failing[5:30])
    descs = []
    for rep in range(ctx.scale(1, 4, 2)):
        for backend in ("asyncio", "trio"):
            d, f = serve_cases(backend)
            descs.extend(d)
            oracle_failures.extend(f)
    dist = {"scripts": len(scripts), "model_cases": len(cases), "serve_cases": len(descs)}
    for m in metas:
        k = f"{m['backend']}:startup={m['obs'][0]}"
        dist[k] = dist.get(k, 0) + 1
    return {
        "evaluations": len(cases) + len(descs),
        "distinct_nontrivial": len({tuple(m["script"]) for m in metas}) + len({d["case"] for d in descs}),
        "rule": "lifespan application scripts: the family named by the property (complete / failed / raise / hang / return early / "
                "unknown message, at startup and at shutdown, with and without a preceding receive) plus random scripts of 0-6 "
                "actions without messages of the wrong phase, run on the real Lifespan helper of both workers exactly as "
                "worker_serve drives it, under virtual time, against model.Lifespan.  worker_serve on loopback sockets, both "
                "workers: connection attempts during a slow startup, startup failed / timed out / unsupported, order of lifespan "
                "messages and request scopes, shutdown with a request in flight, per-connection copies of the lifespan state.",
        "samples": metas[:2] + descs[:1],
        "disagreements": disagreements,
        "oracle_failures": oracle_failures,
        "model_eval_error": err,
        "distribution": dist,
        "assumptions": ["real time for the socket-level cases (delays of 0.15-0.5 s, generous limits)",
                        "the model is validated on scripts without messages of the wrong phase"],
    }


def known_still_fails(k):
    if k.get("signature", "").startswith("F44:"):
        s = ["recv", "lifespan.startup.complete", "recv", "lifespan.shutdown.failed"]
        a, t = obs(*drive_asyncio(s)), obs(*drive_trio(s))
        return f"asyncio {a} / trio {t}" if a != t else None
    return None


def replay(data):
    print(data)
    return 0
