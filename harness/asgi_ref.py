"""Reference automaton of the ASGI send-side specification (HTTP + WebSocket), written from the
specification text for use as an implementation-side oracle (C12).  It works on the message
descriptors of harness/rig.py."""
from __future__ import annotations


def _bytes_ok(d):
    return d[0] == "b"


def header_ok(h):
    n, v = h
    if n[0] != "b" or v[0] != "b":
        return False
    name, value = n[1].strip(), v[1].strip()
    if n[1] == b"" or n[1][:1] == b":":
        return False
    return not any(c in name or c in value for c in (b"\x00", b"\r", b"\n"))


def headers_ok(hs):
    return all(header_ok(h) for h in hs)


class HttpRef:
    """States: req (nothing sent), resp (start sent), trail (body done, trailers announced), done."""

    def __init__(self, version: str, trailers_versions=("2", "3"), push_versions=("2", "3"), hint_versions=("2", "3")):
        self.state = "req"
        self.trailers = False
        self.x_trailers = version in trailers_versions
        self.x_push = version in push_versions
        self.x_hint = version in hint_versions

    def valid(self, m) -> bool:
        k = m[0]
        if k == "start":
            return self.state == "req" and isinstance(m[1], int) and headers_ok(m[2])
        if k == "body":
            return self.state == "resp"
        if k == "trailers":
            return self.state == "trail" and self.x_trailers and headers_ok(m[1])
        if k == "push":
            return self.state in ("req", "resp", "trail") and self.x_push and m[1][0] == "s" and headers_ok(m[2])
        if k == "hint":
            return self.state == "req" and self.x_hint and all(header_ok((("b", b"link"), l)) for l in m[1])
        return False

    def advance(self, m) -> None:
        k = m[0]
        if k == "start":
            self.state, self.trailers = "resp", bool(m[3])
        elif k == "body" and not m[2]:
            self.state = "trail" if self.trailers else "done"
        elif k == "trailers" and not m[2]:
            self.state = "done"


class WsRef:
    """States: connecting, open, denial0 (http.response.start taken), denial (head on the wire), done."""

    def __init__(self):
        self.state = "connecting"

    def valid(self, m) -> bool:
        k = m[0]
        s = self.state
        if k == "ws.accept":
            return s == "connecting" and headers_ok(m[2])
        if k == "ws.close":
            return s in ("connecting", "open")
        if k == "ws.http.start":
            return s == "connecting" and isinstance(m[1], int)
        if k == "ws.http.body":
            return s in ("denial0", "denial")
        if k == "ws.send":
            return s == "open" and (m[1][0] == "b" or (m[1][0] == "n" and m[2][0] == "s"))
        return False

    def advance(self, m) -> None:
        k = m[0]
        if k == "ws.accept":
            self.state = "open"
        elif k == "ws.close":
            self.state = "done"
        elif k == "ws.http.start":
            self.state = "denial0"
        elif k == "ws.http.body":
            self.state = "denial" if m[2] else "done"


def deviation_signature(kind: str, ref, m) -> str:
    """Name of the known class of accepted-though-invalid messages, or a fresh signature."""
    k = m[0]
    if kind == "http":
        if k == "trailers" and ref.state == "req" and ref.x_trailers:
            return "asgi:trailers-before-start"
        if k == "trailers" and ref.state == "trail" and ref.x_trailers:
            return "asgi:trailers-unexamined-without-te"
        if k == "push" and ref.state == "done" and ref.x_push:
            return "asgi:push-after-completion"
        hs = m[2] if k in ("start", "push") else m[1] if k == "trailers" else []
        if k in ("start", "push", "trailers") and any(v == ("i", 0) for _, v in hs):
            return "asgi:int-zero-header-value"
        if k == "hint" and any(l == ("i", 0) for l in m[1]):
            return "asgi:int-zero-header-value"
    else:
        if k == "ws.http.start" and ref.state == "connecting" and not isinstance(m[1], int):
            return "asgi:ws-denial-start-status-unchecked"
        if ref.state == "denial0" and k in ("ws.accept", "ws.close", "ws.http.start"):
            return "asgi:ws-handshake-message-after-denial-start"
        if k == "ws.accept" and any(v == ("i", 0) for _, v in m[2]):
            return "asgi:int-zero-header-value"
        if k == "ws.send" and m[1][0] == "i":
            return "asgi:ws-send-int-as-bytes"
    return f"asgi:accepted-invalid:{kind}:{k}:{ref.state}"
