"""C06: HTTP/1.x persistent-connection and pipelining safety."""
from . import h1checks as K

PROP = "C06"


def kw(rng, i):
    return {"max_requests": rng.choice([None, None, 1, 2, 3, 0]), "queue_size": rng.choice([None, 10]),
            "policy": rng.choice(["fifo", "random", "lifo"]), "n_requests": rng.randint(1, 5), "worker": rng.choice(["asyncio", "trio"])}


def malformed_message_cases(ctx):
    """'... (an aborted or malformed message) the server announces close on the response and closes after it': a request
    whose body turns out malformed (a bad chunk-size line, more bytes than announced cannot happen, a bad chunk terminator)
    while the application is still waiting for it - first request of the connection or a later one - is answered 400 with
    connection: close, nothing more is served, and the connection is closed."""
    import random

    import h11

    from . import rig as R
    from . import sched as S

    rng = random.Random(ctx.seed * 52361 + 3)
    fails, n = [], ctx.scale(40, 400, 120)
    for i in range(n):
        before = rng.choice([0, 1, 2])
        bad = rng.choice([b"zz\r\n", b"-1\r\n", b"5\r\nhelloXX", b"\r\n"])
        good = rng.choice([b"", b"5\r\nhello\r\n"])
        worker = rng.choice(["asyncio", "trio"])
        d = S.Driver(seed=ctx.seed + i, policy=rng.choice(["fifo", "random"]))
        cfg = R.make_config(())
        cfg._log = R.RecLog([])
        recs = []
        answer = [("recv_all",), ("send", {"type": "http.response.start", "status": 200, "headers": [(b"content-length", b"2")]}),
                  ("send", {"type": "http.response.body", "body": b"ok"})]
        rig = S.ProtoRig(S.scripted_app([answer] * 5, recs, d), cfg, d, worker=worker)
        for _ in range(before):
            rig.feed(b"GET /k HTTP/1.1\r\nHost: x\r\n\r\n")
            rig.run()
        rig.feed(b"POST /m HTTP/1.1\r\nHost: x\r\nTransfer-Encoding: chunked\r\n\r\n" + good)
        rig.run()
        rig.feed(bad)
        rig.run()
        rig.feed(b"GET /after HTTP/1.1\r\nHost: x\r\n\r\n")
        rig.run()
        wire = bytes(rig.transport.written)
        case = {"kind": "malformed-body", "requests_before": before, "good": repr(good), "bad": repr(bad), "worker": worker, "wire_tail": repr(wire[-120:])}
        c = h11.Connection(h11.CLIENT)
        statuses, last_headers = [], None
        c.receive_data(wire)
        try:
            for _ in range(before + 1):
                c.send(h11.Request(method="GET", target="/", headers=[("host", "x")]))
                c.send(h11.EndOfMessage())
                while True:
                    ev = c.next_event()
                    if isinstance(ev, h11.Response):
                        statuses.append(ev.status_code)
                        last_headers = [(bytes(a), bytes(b)) for a, b in ev.headers]
                    if ev is h11.NEED_DATA or isinstance(ev, (h11.EndOfMessage, h11.ConnectionClosed)):
                        break
                if c.our_state is h11.DONE and c.their_state is h11.DONE:
                    c.start_next_cycle()
                else:
                    break
        except (h11.RemoteProtocolError, h11.LocalProtocolError) as e:
            statuses.append("unparsable:" + repr(e)[:40])
        want = [200] * before + [400]
        if statuses != want:
            fails.append({"case": case, "what": f"responses {statuses}, expected {want}", "signature": "c06:malformed-not-answered-400"})
        elif (b"connection", b"close") not in [(a.lower(), b.lower()) for a, b in last_headers or []]:
            fails.append({"case": case, "what": "the 400 does not announce connection: close", "signature": "c06:malformed-close-not-announced"})
        if not rig.closed:
            fails.append({"case": case, "what": "connection not closed after the malformed message", "signature": "c06:malformed-not-closed"})
        if any(r["scope"]["path"] == "/after" for r in recs):
            fails.append({"case": case, "what": "a request after the malformed message was served", "signature": "c06:served-after-malformed"})
    return {"failures": fails, "count": n, "dist": {"malformed_message_cases": n}}


def run(ctx):
    return K.run_common(ctx, PROP, ["c06", "c18"], (350, 4000, 1500), None, (350, 5000, 2000), kw,
                        "pipelines of 1-5 requests with arbitrary bodies and Connection headers, all-in-one-read to many splits, "
                        "applications answering before / while / after reading or not reading; keep_alive_max_requests 0..3; "
                        "oracle: instance k+1 starts only after k complete responses are on the wire, bytes never leak between "
                        "requests, reuse only when allowed, close announced and executed.", extra=malformed_message_cases)


def known_still_fails(k):
    if k.get("signature") == "F14:app-queue-full-deadlock":
        return f14_witness()
    return None


def f14_witness():
    """max_app_queue_size=1, the application answers without reading the (empty) request body:
    the closing handler blocks putting http.disconnect into the application's own full queue."""
    import random

    from . import http1e2e as E

    rng = random.Random(5)
    s = E.Session(rng, n_requests=1, queue_size=1, max_requests=1, crashes=False)
    s.reqs[0].close = False
    s.plans[0].read = "none"
    s.plans[0].crash = None
    s.run(splits=[])
    return E.deadlocked_on_own_queue(s)


def replay(data):
    print(data)
    return 0
