"""C06: HTTP/1.x persistent-connection and pipelining safety."""
from . import h1checks as K

PROP = "C06"


def kw(rng, i):
    return {"max_requests": rng.choice([None, None, 1, 2, 3, 0]), "queue_size": rng.choice([None, 10]),
            "policy": rng.choice(["fifo", "random", "lifo"]), "n_requests": rng.randint(1, 5), "worker": rng.choice(["asyncio", "trio"])}


def run(ctx):
    return K.run_common(ctx, PROP, ["c06", "c18"], (350, 4000, 1500), None, (350, 5000, 2000), kw,
                        "pipelines of 1-5 requests with arbitrary bodies and Connection headers, all-in-one-read to many splits, "
                        "applications answering before / while / after reading or not reading; keep_alive_max_requests 0..3; "
                        "oracle: instance k+1 starts only after k complete responses are on the wire, bytes never leak between "
                        "requests, reuse only when allowed, close announced and executed.")


def known_still_fails(k):
    if k.get("signature") == "F14:app-queue-full-deadlock":
        return f14_witness()
    return None


def f14_witness():
    """max_app_queue_size=1, the application answers without reading the (empty) request body:
    the closing handler blocks putting http.disconnect into the application's own full queue."""
    import random

    from . import http1e2e as E

    rng = random.Random(5)
    s = E.Session(rng, n_requests=1, queue_size=1, max_requests=1, crashes=False)
    s.reqs[0].close = False
    s.plans[0].read = "none"
    s.plans[0].crash = None
    s.run(splits=[])
    return E.deadlocked_on_own_queue(s)


def replay(data):
    print(data)
    return 0
