"""C07: idle connections time out, busy ones do not, dead ones are released.
Sessions with pauses of arbitrary virtual duration run on the real TCPServer classes of both
workers under virtual time (harness/rworker.py).  An independent reference of "idle" written from
the property text gives the instant at which the idle timer must close the connection; the run
must close at exactly that instant, never between a complete request head and the end of its
response nor while a WebSocket is open; after the peer is gone the handler must finish as soon as
its applications return and leave no task behind."""
from __future__ import annotations

import random

from . import common as C
from . import rig as R
from . import rworker as W

PROP = "C07"


def make_cfg(timeout):
    c = R.make_config(())
    c._log = R.RecLog([])
    c.keep_alive_timeout = timeout
    return c


def http_app(delays):
    """The k-th request's application sleeps delays[k] before answering (and ignores the disconnect)."""

    async def app(scope, receive, send, sleep, records, now):
        if scope["type"] == "websocket":
            rec = {"kind": "ws", "start": now()}
            records.append(rec)
            await receive()
            await send({"type": "websocket.accept"})
            while True:
                m = await receive()
                if m["type"] == "websocket.disconnect":
                    rec["end"] = now()
                    return
        k = len(records)
        rec = {"kind": "http", "start": now(), "path": scope["path"]}
        records.append(rec)
        d = delays[k] if k < len(delays) else 0.0
        if d:
            await sleep(d)
        await send({"type": "http.response.start", "status": 200, "headers": [(b"content-length", b"2")]})
        await send({"type": "http.response.body", "body": b"ok"})
        rec["end"] = now()

    return app


def closed_at(res):
    for t, k, _ in res["events"]:
        if k == "close":
            return t
    return None


def last_data_at(res):
    ts = [t for t, k, d in res["events"] if k == "data" and d]
    return ts[-1] if ts else None


# ------------------------------------------------------------------ HTTP/1 histories
def h1_history(rng):
    T = rng.choice([1.0, 5.0, 0.25, 30.0])
    n = rng.choice([0, 1, 2, 3, 4])
    script, delays = [], []
    t = 0.0
    idle_start = 0.0
    expected = None
    note = "idle-timeout"
    busy_until = 0.0
    for k in range(n):
        pause = rng.choice([0.0, T / 4, T / 2, T * 0.999, T, T * 1.5])
        arrive = max(t, busy_until) + pause if pause else t + 0.0
        # the client waits for the previous response before pausing (no pipelining here)
        arrive = max(t, busy_until) + pause
        if arrive - idle_start >= T:
            break        # the server has closed by then: stop sending
        if arrive > t:
            script.append(("sleep", arrive - t))
            t = arrive
        d = rng.choice([0.0, 0.0, T / 2, T * 2, T * 3.5])
        kind = rng.choice(["full", "full", "full", "partial-head", "close", "bad"])
        if kind == "partial-head":
            script.append(("send", b"GET /p%d HTTP/1.1\r\nHost: x\r\nX-Part" % k))
            # a partial head does not make the connection busy: the timer runs on from idle_start
            break
        if kind == "bad":
            script.append(("send", b"GET /bad HTTP/1.1\r\nHost: x\r\nBad Header\r\n\r\n"))
            expected = t            # error response, closed at once
            note = "error-response"
            break
        hdr = b"Connection: close\r\n" if kind == "close" else b""
        script.append(("send", b"GET /r%d HTTP/1.1\r\nHost: x\r\n%s\r\n" % (k, hdr)))
        delays.append(d)
        busy_until = t + d
        idle_start = busy_until
        if kind == "close":
            expected = busy_until
            note = "connection-close"
            break
    if expected is None:
        expected = idle_start + T
    return {"T": T, "script": script, "delays": delays, "expected_close": expected, "note": note, "carrier": "h1"}


def h1_case(seed):
    rng = random.Random(seed)
    h = h1_history(rng)
    fails = []
    out = {}
    for backend, run in (("asyncio", W.run_asyncio), ("trio", W.run_trio)):
        res = run(http_app(h["delays"]), make_cfg(h["T"]), h["script"], tail=h["expected_close"] + h["T"] * 5 + 50)
        ca = closed_at(res)
        out[backend] = ca
        if ca is None or abs(ca - h["expected_close"]) > 1e-6:
            fails.append({"signature": f"h1-close-time:{h['note']}", "backend": backend, "closed_at": ca, "expected": h["expected_close"],
                          "history": {k: v for k, v in h.items() if k != "script"}, "script": [s if s[0] != "send" else ("send", s[1][:40]) for s in h["script"]]})
        if res["handler_done"] is None or res["leftovers"] or res["handler_error"]:
            fails.append({"signature": "handler-not-finished", "backend": backend, "leftovers": res["leftovers"], "error": res["handler_error"],
                          "history": {k: v for k, v in h.items() if k != "script"}})
        elif ca is not None and res["handler_done"] > ca + 1e-6 and not h["delays"]:
            fails.append({"signature": "handler-late", "backend": backend, "done": res["handler_done"], "closed": ca})
        n_started = len([r for r in res["app"] if r["kind"] == "http"])
        if n_started != len(h["delays"]):
            fails.append({"signature": "requests-served-count", "backend": backend, "started": n_started, "expected": len(h["delays"])})
    return {"seed": seed, **{k: v for k, v in h.items() if k != "script"}, "closed": out}, fails


# ------------------------------------------------------------------ peer loss
def loss_case(seed):
    rng = random.Random(seed)
    T = rng.choice([5.0, 30.0])
    d = rng.choice([0.0, 1.0, 3.0, 50.0])
    loss = rng.choice(["eof", "reset"])
    when = rng.choice(["before-request", "mid-head", "during-app", "after-response", "pipelined-parked"])
    script = []
    delays = [d]
    t_loss = 0.0
    if when == "before-request":
        script = [("sleep", 1.0), (loss,)]
        delays = []
        t_loss = 1.0
    elif when == "mid-head":
        script = [("send", b"GET /r HTTP/1.1\r\nHo"), ("sleep", 1.0), (loss,)]
        delays = []
        t_loss = 1.0
    elif when == "during-app":
        script = [("send", b"GET /r HTTP/1.1\r\nHost: x\r\n\r\n"), ("sleep", d / 2), (loss,)]
        t_loss = d / 2
    elif when == "after-response":
        script = [("send", b"GET /r HTTP/1.1\r\nHost: x\r\n\r\n"), ("sleep", d + 1.0), (loss,)]
        t_loss = d + 1.0
    else:
        # a second request arrives while the first is unanswered: the reader is parked on it
        script = [("send", b"GET /r HTTP/1.1\r\nHost: x\r\n\r\nGET /s HTTP/1.1\r\nHost: x\r\n\r\n"), ("sleep", d / 2), (loss,)]
        delays = [d, 0.0]
        t_loss = d / 2
    # the handler must be done once the peer is gone and the applications have returned
    app_end = d if delays else 0.0
    limit = max(t_loss, app_end)
    fails = []
    desc = {"seed": seed, "carrier": "h1", "T": T, "delay": d, "loss": loss, "when": when, "limit": limit}
    for backend, run in (("asyncio", W.run_asyncio), ("trio", W.run_trio)):
        res = run(http_app(delays), make_cfg(T), script, tail=limit + 200)
        done = res["handler_done"]
        if done is None or res["leftovers"]:
            fails.append({"signature": f"dead-connection-not-released:{when}", "backend": backend, "leftovers": res["leftovers"], "desc": desc})
        elif done > limit + 1e-6:
            fails.append({"signature": f"dead-connection-released-late:{when}", "backend": backend, "done": done, "limit": limit, "desc": desc})
        if res["handler_error"]:
            fails.append({"signature": "handler-error", "backend": backend, "error": res["handler_error"], "desc": desc})
    return desc, fails


# ------------------------------------------------------------------ WebSocket and HTTP/2
WS_REQ = (b"GET /ws HTTP/1.1\r\nHost: x\r\nUpgrade: websocket\r\nConnection: Upgrade\r\nSec-WebSocket-Key: dGhlIHNhbXBsZSBub25jZQ==\r\n"
          b"Sec-WebSocket-Version: 13\r\n\r\n")


def ws_case(seed):
    from wsproto.connection import Connection, ConnectionType
    from wsproto.events import CloseConnection

    rng = random.Random(seed)
    T = rng.choice([1.0, 5.0])
    open_for = rng.choice([T / 2, T * 3, T * 10])
    close_frame = Connection(ConnectionType.CLIENT).send(CloseConnection(code=1000))
    script = [("send", WS_REQ), ("sleep", open_for), ("send", close_frame)]
    fails = []
    desc = {"seed": seed, "carrier": "ws", "T": T, "open_for": open_for}
    for backend, run in (("asyncio", W.run_asyncio), ("trio", W.run_trio)):
        res = run(http_app([]), make_cfg(T), script, tail=open_for + T * 5 + 50)
        ca = closed_at(res)
        if ca is None or ca < open_for - 1e-6:
            fails.append({"signature": "websocket-closed-by-idle-timer", "backend": backend, "closed_at": ca, "desc": desc})
        elif ca > open_for + T + 1e-6:
            fails.append({"signature": "websocket-connection-not-closed-after-close", "backend": backend, "closed_at": ca, "desc": desc})
        if res["handler_done"] is None or res["leftovers"]:
            fails.append({"signature": "handler-not-finished", "backend": backend, "leftovers": res["leftovers"], "desc": desc})
    return desc, fails


def h2_case(seed):
    import h2.config
    import h2.connection

    rng = random.Random(seed)
    T = rng.choice([1.0, 5.0])
    d = rng.choice([0.0, T / 2, T * 3])
    pause = rng.choice([0.0, T / 2, T * 0.999])
    c = h2.connection.H2Connection(h2.config.H2Configuration(client_side=True, header_encoding=None))
    c.initiate_connection()
    pre = c.data_to_send()
    c.send_headers(1, [(b":method", b"GET"), (b":path", b"/a"), (b":scheme", b"https"), (b":authority", b"x")], end_stream=True)
    req = c.data_to_send()
    script = [("send", pre)]
    t = 0.0
    if pause:
        script.append(("sleep", pause))
        t = pause
    script.append(("send", req))
    expected = t + d + T
    fails = []
    desc = {"seed": seed, "carrier": "h2", "T": T, "delay": d, "pause": pause, "expected_close": expected}
    for backend, run in (("asyncio", W.run_asyncio), ("trio", W.run_trio)):
        res = run(http_app([d]), make_cfg(T), script, alpn="h2", tail=expected + T * 5 + 50)
        ca = closed_at(res)
        if ca is None or abs(ca - expected) > 1e-6:
            fails.append({"signature": "h2-close-time", "backend": backend, "closed_at": ca, "expected": expected, "desc": desc})
        if res["handler_done"] is None or res["leftovers"] or res["handler_error"]:
            fails.append({"signature": "handler-not-finished", "backend": backend, "leftovers": res["leftovers"], "error": res["handler_error"],
                          "desc": desc})
    return desc, fails


def h1_close_pipelined_case(seed):
    """A pipelined request parked behind one whose response ends the connection (Connection: close, HTTP/1.0): the server
    closes after that response, and the parked reader is released so that the connection handler finishes."""
    rng = random.Random(seed)
    T = rng.choice([1.0, 5.0])
    d = rng.choice([0.0, T / 2, T * 3])
    why = rng.choice(["client-close", "http10", "max-requests", "max-requests"])
    first = {"client-close": b"GET /r HTTP/1.1\r\nHost: x\r\nConnection: close\r\n\r\n", "http10": b"GET /r HTTP/1.0\r\nHost: x\r\n\r\n",
             "max-requests": b"GET /r HTTP/1.1\r\nHost: x\r\n\r\n"}[why]
    script = [("send", first + b"GET /s HTTP/1.1\r\nHost: x\r\n\r\n")]
    fails = []
    desc = {"seed": seed, "carrier": "h1", "note": "pipelined-behind-close:" + why, "T": T, "delay": d, "expected_close": d}
    for backend, run in (("asyncio", W.run_asyncio), ("trio", W.run_trio)):
        cfg = make_cfg(T)
        if why == "max-requests":
            cfg.keep_alive_max_requests = 1        # the server's own decision: the client could not know, the reader is parked
        res = run(http_app([d, 0.0]), cfg, script, tail=d + T * 5 + 50)
        ca = closed_at(res)
        if ca is None or abs(ca - d) > 1e-6:
            fails.append({"signature": "close-after-closing-response", "backend": backend, "closed_at": ca, "expected": d, "desc": desc})
        if res["handler_done"] is None or res["leftovers"] or res["handler_error"]:
            fails.append({"signature": "handler-not-finished", "backend": backend, "leftovers": res["leftovers"], "error": res["handler_error"],
                          "desc": desc})
    return desc, fails


def big_body_app(size):
    async def app(scope, receive, send, sleep, records, now):
        rec = {"kind": "http", "start": now(), "path": scope["path"]}
        records.append(rec)
        await receive()
        await send({"type": "http.response.start", "status": 200, "headers": []})
        await send({"type": "http.response.body", "body": b"x" * size, "more_body": False})
        await receive()
        rec["end"] = now()

    return app


def h2_blocked_eof_case(seed):
    """The client's window (100 bytes) holds the application in send(); the client then half-closes.  Reading is over:
    whatever the released application still does, the connection is closed then and the idle timer is not re-armed."""
    import h2.config
    import h2.connection
    import h2.settings

    rng = random.Random(seed)
    T = rng.choice([1.0, 5.0])
    te = rng.choice([0.3, T / 2, T * 2])
    c = h2.connection.H2Connection(h2.config.H2Configuration(client_side=True, header_encoding=None))
    c.local_settings = h2.settings.Settings(client=True, initial_values={h2.settings.SettingCodes.INITIAL_WINDOW_SIZE: 100})
    c.initiate_connection()
    c.send_headers(1, [(b":method", b"GET"), (b":path", b"/a"), (b":scheme", b"https"), (b":authority", b"x")], end_stream=True)
    script = [("send", c.data_to_send()), ("sleep", te), ("eof",)]
    fails = []
    desc = {"seed": seed, "carrier": "h2", "note": "blocked-sender-eof", "T": T, "eof_at": te}
    for backend, run in (("asyncio", W.run_asyncio), ("trio", W.run_trio)):
        for rep in range(3):          # the order in which the released sender and the closing reader run is the runtime's choice
            res = run(big_body_app(1000), make_cfg(T), script, alpn="h2", tail=te + T * 5 + 50)
            ca = closed_at(res)
            if ca is None or abs(ca - te) > 1e-6:
                fails.append({"signature": "h2-eof-close-time", "backend": backend, "closed_at": ca, "expected": te, "desc": desc})
                break
            if res["handler_done"] is None or res["leftovers"] or res["handler_error"]:
                fails.append({"signature": "handler-not-finished", "backend": backend, "leftovers": res["leftovers"], "error": res["handler_error"],
                              "desc": desc})
                break
    return desc, fails


def stalled_client_error_case(seed):
    """The client stops reading in the middle of the response (the server's write parks) and then sends what is not a chunk
    of its request body: the server decides to close.  The transport is closed and the handler finishes although a write
    was pending."""
    from . import c16

    rng = random.Random(seed)
    T = rng.choice([1.0, 5.0])
    garbage = rng.choice([b"zz\r\n", b"-1\r\n"])
    steps = [("send", {"type": "http.response.start", "status": 200, "headers": []}),
             ("send", {"type": "http.response.body", "body": b"first", "more_body": True}), ("sleep", 1.0),
             ("send", {"type": "http.response.body", "body": b"x" * 5000, "more_body": True}), ("sleep", 3.0),
             ("send", {"type": "http.response.body", "body": b"last", "more_body": False})]
    script = [("send", b"POST /u HTTP/1.1\r\nHost: x\r\nTransfer-Encoding: chunked\r\n\r\n3\r\nabc\r\n"), ("sleep", 0.5), ("stall",),
              ("sleep", 1.0), ("send", garbage), ("sleep", 6.0)]
    fails = []
    desc = {"seed": seed, "carrier": "h1", "note": "stalled-client-then-error", "T": T}
    for backend, run in (("asyncio", W.run_asyncio), ("trio", W.run_trio)):
        res = run(c16.scripted([steps]), make_cfg(T), script, tail=60.0)
        ca = closed_at(res)
        if ca is None:
            fails.append({"signature": "transport-left-open-after-server-close", "backend": backend, "desc": desc, "error": res["handler_error"]})
        elif res["handler_done"] is None or res["leftovers"]:
            fails.append({"signature": "handler-not-finished", "backend": backend, "leftovers": res["leftovers"], "error": res["handler_error"],
                          "desc": desc})
        elif res["handler_error"]:
            fails.append({"signature": "handler-error", "backend": backend, "error": res["handler_error"], "desc": desc})
    return desc, fails


def h2_slow_client_case(seed):
    """The client lets its 65535-octet window fill, waits longer than keep_alive_timeout and only then grants credit: the
    stream is open all along, so the timer must not fire, and the response is delivered in full however slowly it is consumed."""
    import h2.config
    import h2.connection

    rng = random.Random(seed)
    T = rng.choice([0.3, 1.0])
    stall = rng.choice([T * 2, T * 5])
    first, last = rng.choice([(60000, 10000), (65535, 1), (30000, 50000)])

    async def app(scope, receive, send, sleep, records, now):
        rec = {"kind": "http", "start": now(), "path": scope["path"], "scope": {}, "received": [], "sends": []}
        records.append(rec)
        await send({"type": "http.response.start", "status": 200, "headers": []})
        await send({"type": "http.response.body", "body": b"a" * first, "more_body": True})
        await sleep(0.1)
        await send({"type": "http.response.body", "body": b"b" * last, "more_body": False})
        rec["end"] = now()

    c = h2.connection.H2Connection(h2.config.H2Configuration(client_side=True, header_encoding=None))
    c.initiate_connection()
    c.send_headers(1, [(b":method", b"GET"), (b":path", b"/a"), (b":scheme", b"https"), (b":authority", b"x")], end_stream=True)
    opening = c.data_to_send()
    c.increment_flow_control_window(100000, 1)
    c.increment_flow_control_window(100000, None)
    credit = c.data_to_send()
    script = [("send", opening), ("sleep", stall), ("send", credit), ("sleep", 0.5)]
    fails = []
    desc = {"seed": seed, "carrier": "h2", "note": "slow-client", "T": T, "stall": stall, "body": first + last}
    for backend, run in (("asyncio", W.run_asyncio), ("trio", W.run_trio)):
        res = run(app, make_cfg(T), script, alpn="h2", tail=stall + T * 5 + 50)
        # an observer with windows wide open parses what the server wrote
        import h2.events

        obs = h2.connection.H2Connection(h2.config.H2Configuration(client_side=True, header_encoding=None))
        obs.initiate_connection()
        obs.send_headers(1, [(b":method", b"GET"), (b":path", b"/a"), (b":scheme", b"https"), (b":authority", b"x")], end_stream=True)
        obs.increment_flow_control_window(2 ** 30)
        obs.increment_flow_control_window(2 ** 30, 1)
        obs.data_to_send()
        got = ends = 0
        try:
            for ev in obs.receive_data(b"".join(d for _, k, d in res["events"] if k == "data" and d)):
                if isinstance(ev, h2.events.DataReceived) and ev.stream_id == 1:
                    got += len(ev.data)
                elif isinstance(ev, h2.events.StreamEnded) and ev.stream_id == 1:
                    ends += 1
        except Exception:  # noqa: BLE001
            ends = -1
        ca = closed_at(res)
        if got != first + last or ends != 1:
            fails.append({"signature": "h2-slow-client-truncated", "backend": backend, "delivered": got, "expected": first + last, "ends": ends,
                          "closed_at": ca, "desc": desc})
        elif ca is not None and ca < stall - 1e-6:
            fails.append({"signature": "busy-h2-connection-closed-by-timer", "backend": backend, "closed_at": ca, "desc": desc})
    return desc, fails


def terminate_case(seed):
    rng = random.Random(seed)
    T = 30.0
    d = rng.choice([0.0, 2.0])
    when = rng.choice(["idle", "busy"])
    if when == "idle":
        script = [("sleep", 1.0), ("terminate",)]
        expected, delays = 1.0, []
    else:
        script = [("send", b"GET /r HTTP/1.1\r\nHost: x\r\n\r\n"), ("sleep", d / 2), ("terminate",)]
        expected, delays = d, [d]
    fails = []
    desc = {"seed": seed, "carrier": "h1", "terminate": when, "delay": d, "expected_close": expected}
    for backend, run in (("asyncio", W.run_asyncio), ("trio", W.run_trio)):
        res = run(http_app(delays), make_cfg(T), script, tail=100)
        ca = closed_at(res)
        if ca is None or abs(ca - expected) > 1e-6:
            fails.append({"signature": f"terminated-close-time:{when}", "backend": backend, "closed_at": ca, "expected": expected, "desc": desc})
    return desc, fails


def dead_connection_case(seed):
    """Connections that are over are released: the connection handler finishes (findings F57, F58).
    connect-200: CONNECT answered 2xx, h11 switches protocol for good;  terminate-pipelined: shutdown begins while a
    request with a pipelined successor is being answered;  h2c-404 / h2c-connect: an h2c upgrade whose request is answered
    by the stream itself (unknown host, CONNECT without :protocol)."""
    from . import c16

    rng = random.Random(seed)
    kind = rng.choice(["connect-200", "terminate-pipelined", "h2c-404", "h2c-connect", "pipelined-reset", "h2-idle-reset", "longpoll-reset",
                       "longpoll-read-timeout", "h2-last-stream-after-terminate"])
    d = rng.choice([0.0, 2.0])
    answer = [("recv",), ("sleep", d), ("send", {"type": "http.response.start", "status": 200, "headers": []}),
              ("send", {"type": "http.response.body", "body": b"hello", "more_body": False})]
    names = ()
    alpn = None
    rto = None
    if kind == "h2-idle-reset":
        # an HTTP/2 connection whose only request has been answered; the client resets: the send task must not outlive it
        import h2.config
        import h2.connection

        c = h2.connection.H2Connection(h2.config.H2Configuration(client_side=True, header_encoding=None))
        c.initiate_connection()
        c.send_headers(1, [(b":method", b"GET"), (b":path", b"/a"), (b":scheme", b"https"), (b":authority", b"x")], end_stream=True)
        alpn = "h2"
        script = [("send", c.data_to_send()), ("sleep", d + 1.0), ("reset",), ("sleep", 3.0)]
    elif kind == "h2-last-stream-after-terminate":
        # shutdown begins while the only stream of an HTTP/2 connection is being answered: when it ends the connection has
        # no open streams and is closed at once (GOAWAY, then the transport)
        import h2.config
        import h2.connection

        c = h2.connection.H2Connection(h2.config.H2Configuration(client_side=True, header_encoding=None))
        c.initiate_connection()
        c.send_headers(1, [(b":method", b"GET"), (b":path", b"/a"), (b":scheme", b"https"), (b":authority", b"x")], end_stream=True)
        alpn = "h2"
        d = 2.0
        answer = [("recv",), ("sleep", d), ("send", {"type": "http.response.start", "status": 200, "headers": []}),
                  ("send", {"type": "http.response.body", "body": b"hello", "more_body": False})]
        script = [("send", c.data_to_send()), ("sleep", 0.5), ("terminate",), ("sleep", 10.0)]
    elif kind in ("longpoll-reset", "longpoll-read-timeout"):
        # the application waits in receive() for its disconnect; the connection ends by a reset / the read timeout
        answer = [("recv",), ("recv",), ("return",)]
        rto = 2 if kind == "longpoll-read-timeout" else None
        script = [("send", b"GET /poll HTTP/1.1\r\nHost: x\r\n\r\n"), ("sleep", 1.0)] + ([("reset",)] if rto is None else [("sleep", 3.0)]) + [("sleep", 3.0)]
    elif kind == "pipelined-reset":
        # a request is pipelined behind a streaming response, the client resets, the next write fails, the application
        # returns on its disconnect (finding F64)
        d = 2.0
        answer = [("recv",), ("send", {"type": "http.response.start", "status": 200, "headers": []}),
                  ("send", {"type": "http.response.body", "body": b"part", "more_body": True}), ("sleep", d),
                  ("send", {"type": "http.response.body", "body": b"part2", "more_body": True}), ("recv",), ("return",)]
        script = [("send", b"GET /a HTTP/1.1\r\nHost: x\r\n\r\nGET /b HTTP/1.1\r\nHost: x\r\n\r\n"), ("sleep", 1.0), ("reset",), ("sleep", 5.0)]
    elif kind == "connect-200":
        script = [("send", b"CONNECT example.com:443 HTTP/1.1\r\nHost: example.com:443\r\n\r\n"), ("sleep", d + 1.0),
                  ("send", b"\x16\x03\x01tunnelled"), ("sleep", 1.0), ("eof",)]
    elif kind == "terminate-pipelined":
        script = [("send", b"GET /a HTTP/1.1\r\nHost: x\r\n\r\nGET /b HTTP/1.1\r\nHost: x\r\n\r\n"), ("sleep", d / 2), ("terminate",),
                  ("sleep", d + 1.0), ("eof",)]
    else:
        names = ("good.example",) if kind == "h2c-404" else ()
        method = b"GET /" if kind == "h2c-404" else b"CONNECT example.com:443"
        script = [("send", method + b" HTTP/1.1\r\nHost: other.example\r\nConnection: Upgrade, HTTP2-Settings\r\nUpgrade: h2c\r\n"
                   b"HTTP2-Settings: AAMAAABkAAQAAP__\r\n\r\n"), ("sleep", 1.0), ("eof",)]
    fails = []
    desc = {"seed": seed, "carrier": "h1", "note": "dead:" + kind, "delay": d}
    for backend, run in (("asyncio", W.run_asyncio), ("trio", W.run_trio)):
        cfg = R.make_config(names)
        cfg._log = R.RecLog([])
        cfg.keep_alive_timeout = 30.0
        cfg.read_timeout = rto
        res = run(c16.scripted([answer, answer]), cfg, script, alpn=alpn, tail=20.0)
        if res["handler_done"] is None or res["leftovers"]:
            fails.append({"signature": "handler-not-finished:" + kind, "backend": backend, "leftovers": res["leftovers"], "desc": desc,
                          "error": res["handler_error"]})
        elif res["handler_error"]:
            fails.append({"signature": "handler-error:" + kind, "backend": backend, "error": res["handler_error"], "desc": desc})
        elif kind == "h2-last-stream-after-terminate" and (closed_at(res) is None or closed_at(res) > 2.0 + 0.5):
            fails.append({"signature": "not-closed-at-once-after-last-stream:" + kind, "backend": backend, "closed_at": closed_at(res), "desc": desc})
        elif kind.startswith("h2c") and not any(k == "data" and d2 and b"\x00\x00\x00\x00\x01\x00\x00\x00\x01" in d2 for _, k, d2 in res["events"]):
            # the stream's own answer ends with an empty DATA frame carrying END_STREAM on stream 1
            fails.append({"signature": "h2c-upgrade-request-not-answered:" + kind, "backend": backend, "desc": desc})
    return desc, fails


def h2_reset_idle_witness():
    """F66: the client resets the only open stream of an HTTP/2 connection; the connection has no open streams from then on,
    but nobody tells the server (no Updated event on that path): the idle timer is never started."""
    import h2.config
    import h2.connection

    from . import c16

    T = 2.0
    c = h2.connection.H2Connection(h2.config.H2Configuration(client_side=True, header_encoding=None))
    c.initiate_connection()
    c.send_headers(1, [(b":method", b"POST"), (b":path", b"/a"), (b":scheme", b"https"), (b":authority", b"x")])
    opening = c.data_to_send()
    c.reset_stream(1)
    rst = c.data_to_send()
    script = [("send", opening), ("sleep", 1.0), ("send", rst), ("sleep", 10 * T)]
    out = {}
    for backend, run in (("asyncio", W.run_asyncio), ("trio", W.run_trio)):
        res = run(c16.scripted([[("recv",), ("return",)]]), make_cfg(T), script, alpn="h2", tail=5.0)
        out[backend] = closed_at(res)
    return out, 1.0 + T


# ------------------------------------------------------------------ known findings: error responses / prior knowledge
def error_response_case(kind):
    """F10 / F11: after a server-generated error response inside a stream, and on a cleartext prior-knowledge
    HTTP/2 connection, nobody re-arms the idle timer."""
    import h2.config
    import h2.connection

    T = 5.0
    if kind == "404-server-name":
        cfg = R.make_config(["good.example"])
        script = [("send", b"GET / HTTP/1.1\r\nHost: bad.example\r\n\r\n")]
    elif kind == "400-websocket":
        cfg = R.make_config(())
        script = [("send", b"GET /ws HTTP/1.1\r\nHost: x\r\nUpgrade: websocket\r\nConnection: Upgrade\r\nSec-WebSocket-Version: 13\r\n\r\n")]
    else:
        cfg = R.make_config(())
        c = h2.connection.H2Connection(h2.config.H2Configuration(client_side=True, header_encoding=None))
        c.initiate_connection()
        script = [("send", c.data_to_send())]
    cfg._log = R.RecLog([])
    cfg.keep_alive_timeout = T
    out = {}
    for backend, run in (("asyncio", W.run_asyncio), ("trio", W.run_trio)):
        cfg2 = cfg
        res = run(http_app([]), cfg2, script, tail=60.0)
        ca = closed_at(res)
        out[backend] = ca
    return out, T


# ------------------------------------------------------------------ timer correspondence
TIMER_PREAMBLE = ("From Coq Require Import ZArith List.\nFrom HV Require Import lib.Obs model.IdleTimer.\nImport ListNotations.\nOpen Scope Z_scope.\n"
                  "Definition run_timer (c : Z * list (Z * tev)) : val :=\n"
                  "  match final_close (trun (fst c) (snd c)) with Some t => VL [VZ t] | None => VL [] end.\n")
EV = {"idle": "TArm", "busy": "TBusy", "read-done": "TFinished", "closed": "TClosed", "terminate": "TTerminate"}


def ms(t):
    return int(round(t * 1000000))     # microseconds: the histories use pauses of 0.999 T


def timer_case(res, T):
    """(coq input, expected) from a run: the events the server saw and when the transport was closed."""
    evs = [(0, "TArm")] + [(ms(t), EV[k]) for t, k in res["trace"]]
    # the trace is appended in call order; the model wants chronological order (it is: virtual time is monotone)
    term = f"({ms(T)}, [{'; '.join(f'({t}, {e})' for t, e in evs)}])"
    ca = closed_at(res)
    return term, C.V([ms(ca)] if ca is not None else [])


def run(ctx):
    fns = [(h1_case, ctx.scale(360, 2000, 600)), (loss_case, ctx.scale(240, 1200, 400)), (ws_case, ctx.scale(48, 300, 100)),
           (h2_case, ctx.scale(48, 300, 100)), (h2_blocked_eof_case, ctx.scale(16, 100, 30)), (h2_slow_client_case, ctx.scale(8, 60, 20)), (stalled_client_error_case, ctx.scale(6, 40, 12)), (h1_close_pipelined_case, ctx.scale(16, 100, 30)), (terminate_case, ctx.scale(12, 100, 40)),
           (dead_connection_case, ctx.scale(32, 200, 60))]
    oracle_failures, descs = [], []
    for fn, n in fns:
        for i in range(n):
            d, f = fn(ctx.seed * 49979687 + i)
            descs.append(d)
            for x in f:
                oracle_failures.append(x)
    # timer correspondence on fresh runs
    cases, metas = [], []
    rng = ctx.rng
    for i in range(ctx.scale(200, 1500, 400)):
        h = h1_history(rng)
        for backend, runner in (("asyncio", W.run_asyncio), ("trio", W.run_trio)):
            res = runner(http_app(h["delays"]), make_cfg(h["T"]), h["script"], tail=h["expected_close"] + h["T"] * 5 + 50)
            term, exp = timer_case(res, h["T"])
            cases.append((term, exp))
            metas.append({"backend": backend, "T": h["T"], "trace": res["trace"], "closed_at": closed_at(res), "note": h["note"]})
    for i in range(ctx.scale(20, 200, 60)):
        d, _ = terminate_case(ctx.seed * 7 + i)
    disagreements, err = [], None
    if ctx.mode != "search":
        failing, err = C.coq_failing(PROP, TIMER_PREAMBLE, "Z * list (Z * tev)", "run_timer", cases)
        for k in failing[:5]:
            disagreements.append({"case": metas[k], "input": cases[k][0], "expected": cases[k][1],
                                  "model": C.coq_show(PROP, TIMER_PREAMBLE, "run_timer", cases[k][0])[-300:]})
        disagreements.extend({"case": metas[k]} for k in failing[5:30])
    dist = {"sessions": len(descs), "timer_cases": len(cases)}
    for d in descs:
        k = f"{d.get('carrier')}:{d.get('note') or d.get('when') or d.get('terminate') or 'idle'}"
        dist[k] = dist.get(k, 0) + 1
    return {
        "evaluations": len(descs) * 2 + len(cases),
        "distinct_nontrivial": len({repr(sorted((k, str(v)) for k, v in d.items() if k != "seed")) for d in descs}) + len({c[0] for c in cases}),
        "rule": "HTTP/1 histories of 0-4 requests with pauses of 0, T/4, T/2, 0.999T, T, 1.5T before each, application delays of 0, T/2, "
                "2T, 3.5T, partial heads, connection: close, malformed heads, for keep_alive_timeout T in {0.25, 1, 5, 30} s; peer loss "
                "(EOF, reset) before a request, mid-head, while the application runs, after the response, with a pipelined request "
                "parked; WebSocket sessions open for T/2, 3T, 10T; HTTP/2 connections with a stream answered after 0, T/2, 3T; "
                "shutdown while idle and while busy -- each on the real asyncio and trio TCPServer under virtual time, closing "
                "instants compared exactly.  Timer correspondence: the Updated/Closed/end-of-reading events seen by the server "
                "replayed through model.IdleTimer.",
        "samples": descs[:2] + descs[-1:],
        "disagreements": disagreements,
        "oracle_failures": oracle_failures,
        "model_eval_error": err,
        "distribution": dist,
        "assumptions": ["virtual time: asyncio loop with a jumping clock, trio MockClock(autojump_threshold=0); in-memory transports",
                        "the reference 'idle since' used by the oracle: end of the last response (keep-alive) or connection start"],
    }


def known_still_fails(k):
    sig = k.get("signature", "")
    if sig.startswith("F10:") or sig.startswith("F11:"):
        kind = k["witness"]["kind"]
        out, T = error_response_case(kind)
        if all(v is None or v > T + 1e-6 for v in out.values()):
            return f"{kind}: closed at {out} (keep_alive_timeout {T})"
        return None
    if sig.startswith("F66:"):
        out, due = h2_reset_idle_witness()
        if all(v is None or v > due + 1e-6 for v in out.values()):
            return f"closed at {out}, due at {due}"
        return None
    return None


def replay(data):
    print(data)
    return 0
