"""C18: configured limits and worker recycling."""
from . import common as C
from . import h1checks as K
from . import rig as R
from . import sched as S

PROP = "C18"


def kw(rng, i):
    return {"max_requests": rng.choice([0, 1, 1, 2, 3, 5]), "queue_size": None, "policy": rng.choice(["fifo", "random"]),
            "n_requests": rng.randint(1, 7), "crashes": False, "allow_10": False, "worker": rng.choice(["asyncio", "trio"])}


def extra(ctx):
    """Limits that are settings handed to the libraries, the incomplete-head limit, and mark_request."""
    import h2.settings

    from hypercorn.protocol.h11 import H11Protocol
    from hypercorn.protocol.h2 import H2Protocol
    from hypercorn.typing import ConnectionState

    rng = ctx.rng
    fails, n, dist = [], 0, {"incomplete_head": 0, "h2_settings": 0, "mark_request": 0}
    # (1) h11_max_incomplete_size: a head still incomplete after the limit -> 4xx + close, no application
    for _ in range(ctx.scale(40, 400, 150)):
        limit = rng.choice([50, 100, 1000, 16384])
        over = rng.choice([True, True, False])
        size = limit + rng.randint(1, 50) if over else max(10, limit - rng.randint(30, 45))
        head = b"GET / HTTP/1.1\r\nHost: x\r\nX-Pad: " + b"a" * max(0, size - 36)
        d = S.Driver()
        cfg = R.make_config(h11_max_incomplete_size=limit)
        cfg._log = R.RecLog([])
        records = []
        rig = S.ProtoRig(S.scripted_app([], records, d), cfg, d)
        k = rng.choice([1, 2, 5])
        step = max(1, len(head) // k)
        for a in range(0, len(head), step):
            if not rig.closed:
                rig.feed(head[a:a + step])
                rig.run()
        n += 1
        dist["incomplete_head"] += 1
        wire = bytes(rig.transport.written)
        case = {"kind": "incomplete-head", "limit": limit, "sent": len(head), "closed": rig.closed, "wire": wire[:60]}
        if len(head) > limit:
            if records or not rig.closed or not (wire.startswith(b"HTTP/1.1 431") or wire.startswith(b"HTTP/1.1 400")):
                fails.append({"case": case, "what": "head over h11_max_incomplete_size not rejected with 4xx + close", "signature": "c18:incomplete-head"})
        elif rig.closed or wire:
            fails.append({"case": case, "what": "head within the limit rejected", "signature": "c18:incomplete-head-early"})
    # (2) the HTTP/2 limits are the configured values (enforcement is the h2 library's)
    for _ in range(ctx.scale(20, 200, 60)):
        mcs, mhl, mfs = rng.choice([0, 1, 5, 100]), rng.choice([100, 4096, 65536]), rng.choice([16384, 20000, 65535])
        d = S.Driver()
        cfg = R.make_config(h2_max_concurrent_streams=mcs, h2_max_header_list_size=mhl, h2_max_inbound_frame_size=mfs)
        p = H2Protocol(None, cfg, S.RigContext(d), S.RigTaskGroup(d), ConnectionState({}), True, None, None, None)
        ls = p.connection.local_settings
        n += 1
        dist["h2_settings"] += 1
        got = (ls[h2.settings.SettingCodes.MAX_CONCURRENT_STREAMS], ls[h2.settings.SettingCodes.MAX_HEADER_LIST_SIZE],
               p.connection.DEFAULT_MAX_INBOUND_FRAME_SIZE)
        if got != (mcs, mhl, mfs):
            fails.append({"case": {"kind": "h2-settings", "want": (mcs, mhl, mfs), "got": got}, "what": "HTTP/2 limits differ from the configuration",
                          "signature": "c18:h2-settings"})
        hp = H11Protocol(None, R.make_config(h11_max_incomplete_size=mhl), S.RigContext(d), S.RigTaskGroup(d), ConnectionState({}), False, None, None, None)
        if hp.connection._max_incomplete_event_size != mhl:
            fails.append({"case": {"kind": "h11-setting"}, "what": "h11_max_incomplete_size not handed to h11", "signature": "c18:h11-setting"})
    # (2b) ... and they are enforced: a header block well within h2_max_header_list_size is served, one well beyond it is
    #      refused without reaching an application (finding F65: the configured value was advertised, not applied)
    from . import h2rig as H2R

    ok_app = [[("recv_all",), ("send", {"type": "http.response.start", "status": 200, "headers": []}), ("send", {"type": "http.response.body", "body": b"ok"})]] * 2
    for _ in range(ctx.scale(12, 120, 40)):
        lim = rng.choice([1000, 4096, 30000, 100000])
        over = rng.random() < 0.5
        size = lim * 2 if over else lim // 2
        sess = H2R.H2Session(ok_app, config_kw={"h2_max_header_list_size": lim}, raw_client=True, worker=rng.choice(["asyncio", "trio"]))
        nh = rng.choice([1, 4])
        try:
            sess.request(1, path="/big", headers=[(b"x-big-%d" % i, b"v" * (size // nh)) for i in range(nh)])
            sess.pump()
        except Exception as e:  # noqa: BLE001
            fails.append({"case": {"kind": "h2-header-list", "limit": lim, "size": size}, "what": f"session failed: {e!r}", "signature": "c18:h2-header-list:harness"})
            continue
        n += 1
        dist["h2_header_list"] = dist.get("h2_header_list", 0) + 1
        served = len(sess.records)
        case = {"kind": "h2-header-list", "limit": lim, "block": size, "headers": nh, "served": served, "events": [e[:3] for e in sess.events[:4]]}
        if over and served:
            fails.append({"case": case, "what": f"a header block of about {size} octets was served with h2_max_header_list_size={lim}", "signature": "c18:h2-header-list-not-enforced"})
        if not over and (served != 1 or ("response", 1) not in sess.events):
            fails.append({"case": case, "what": f"a header block of about {size} octets was refused with h2_max_header_list_size={lim}", "signature": "c18:h2-header-list-too-strict"})
    # (3) mark_request of both workers against the model (in Coq)
    import asyncio

    import trio

    from hypercorn.asyncio.worker_context import WorkerContext as AW
    from hypercorn.trio.worker_context import WorkerContext as TW

    cases = []
    for _ in range(ctx.scale(60, 600, 200)):
        mx = rng.choice([None, 0, 1, 2, 5, 10])
        j = rng.choice([0, 0, 1, 3])
        k = rng.randint(0, 16)

        async def run_ctx(cls):
            c = cls(None if mx is None else mx + j)
            trace = []
            for _i in range(k):
                await c.mark_request()
                trace.append(c.terminate.is_set())
            return trace

        ta = asyncio.run(run_ctx(AW))
        tt = trio.run(run_ctx, TW)
        n += 1
        dist["mark_request"] += 1
        if ta != tt:
            fails.append({"case": {"kind": "mark_request", "max": mx, "j": j, "k": k}, "what": "asyncio and trio contexts differ", "signature": "c18:mark-request-workers"})
        want = [mx is not None and (i + 1) > mx + j for i in range(k)]
        if ta != want:
            fails.append({"case": {"kind": "mark_request", "max": mx, "j": j, "k": k, "trace": ta}, "what": "terminate not set exactly when requests > max + jitter",
                          "signature": "c18:mark-request"})
        cases.append((f"({C.copt(mx, C.cZ)}, {C.cZ(j)}, {C.cnat(k)})", C.V(ta)))
    pre = "From Coq Require Import ZArith List Bool.\nFrom HV Require Import lib.Obs model.WorkerCtx.\nImport ListNotations.\n" \
          "Definition run_case (c : option Z * Z * nat) : val := let '(mx, j, k) := c in\n" \
          "  VL (map (fun i => vbool (wx_terminate (mark_n (S i) (wctx_init mx j)))) (seq 0 k)).\n"
    if ctx.mode != "search":
        failing, err = C.coq_failing("C18_wctx", pre, "option Z * Z * nat", "run_case", cases)
        for i in failing[:3]:
            fails.append({"case": {"kind": "mark_request-model", "index": i}, "what": "WorkerCtx model and implementation differ", "signature": "c18:mark-request-model"})
        if err:
            fails.append({"case": {"kind": "mark_request-model"}, "what": err[-500:], "signature": "c18:mark-request-model-eval"})
    # (5) every request counts towards max_requests and keep_alive_max_requests, whichever way it arrives: HTTP/1 requests,
    #     HTTP/2 streams over ALPN or prior knowledge, and the request that carries an h2c upgrade (stream 1 of the new connection)
    import h2.config
    import h2.connection

    for _ in range(ctx.scale(12, 120, 40)):
        kind = rng.choice(["h1", "h2-alpn", "h2c-upgrade", "h2c-upgrade"])
        k = rng.choice([0, 1, 3])
        d = S.Driver()
        cfg = R.make_config(())
        cfg._log = R.RecLog([])
        records = []
        rig = S.ProtoRig(S.scripted_app([], records, d, default=[("send", {"type": "http.response.start", "status": 200, "headers": []}),
                                                                    ("send", {"type": "http.response.body", "body": b"ok"})]),
                         cfg, d, alpn="h2" if kind == "h2-alpn" else None, ssl=(kind == "h2-alpn"), max_requests=1000)
        c = h2.connection.H2Connection(h2.config.H2Configuration(client_side=True, header_encoding=None))
        sent = 0
        if kind == "h1":
            for i in range(k + 1):
                rig.feed(b"GET /r%d HTTP/1.1\r\nHost: x\r\n\r\n" % i)
                rig.run()
                sent += 1
        else:
            if kind == "h2c-upgrade":
                settings = c.initiate_upgrade_connection()
                rig.feed(b"GET /up HTTP/1.1\r\nHost: x\r\nConnection: Upgrade, HTTP2-Settings\r\nUpgrade: h2c\r\nHTTP2-Settings: " + settings + b"\r\n\r\n")
                rig.run()
                sent += 1
                sid = 3
            else:
                c.initiate_connection()
                sid = 1
            out = c.data_to_send()
            if out:
                rig.feed(out)
                rig.run()
            for i in range(k):
                c.send_headers(sid, [(b":method", b"GET"), (b":path", b"/s%d" % sid), (b":scheme", b"https"), (b":authority", b"x")], end_stream=True)
                rig.feed(c.data_to_send())
                rig.run()
                sid += 2
                sent += 1
        n += 1
        dist["request_counting"] = dist.get("request_counting", 0) + 1
        counted = rig.context.requests
        if counted != len(records) or len(records) != sent:
            fails.append({"case": {"kind": "request-counting", "opening": kind, "sent": sent, "instances": len(records), "counted": counted},
                          "what": f"{sent} requests, {len(records)} application instances, {counted} counted by mark_request",
                          "signature": "c18:request-counting"})
    # (4) the real worker_serve of both workers: the jitter is drawn from [0, max_requests_jitter], and serve() begins
    #     its graceful exit right after request number max_requests + jitter + 1
    for k, (backend, mx, jit, pick) in enumerate(recycle_plan(ctx)):
        no_trigger = backend == "trio" and k % 2 == 1     # the worker's own recycling needs no outside trigger
        if no_trigger:
            mx = max(mx, 1)
        res = recycle_run(backend, mx, jit, pick, no_trigger)
        n += 1
        dist["worker_recycle"] = dist.get("worker_recycle", 0) + 1
        case = {"kind": "worker-recycle", "backend": backend, "max_requests": mx, "jitter": jit, "pick": pick, "shutdown_trigger": not no_trigger, **res}
        if res["draws"] != [(0, jit)]:
            fails.append({"case": case, "what": f"jitter drawn from {res['draws']}, expected one draw from (0, {jit})", "signature": "c18:jitter-range"})
        elif res["served"] != mx + res["j"] + 1 or not res["returned"]:
            fails.append({"case": case, "what": f"worker served {res['served']} requests (returned: {res['returned']}), expected to stop after "
                                                f"{mx + res['j'] + 1} = max_requests + jitter + 1", "signature": "c18:worker-recycle"})
    return {"failures": fails, "count": n, "dist": dist}


def recycle_plan(ctx):
    rng = ctx.rng
    plan = []
    for backend in ("asyncio", "trio"):
        for _ in range(ctx.scale(2, 8, 4)):
            plan.append((backend, rng.choice([0, 1, 2, 3]), rng.choice([0, 1, 2, 4]), rng.choice([0, 1])))
    return plan


def recycle_run(backend, mx, jit, pick, no_trigger=False):
    """Real serve() in a thread on a loopback port; randint of the worker's run module is replaced by a recorder that
    returns the low or the high end of the range it is asked for."""
    import importlib
    import time

    from . import c14 as L

    mod = importlib.import_module(f"hypercorn.{backend}.run")
    draws = []
    orig = mod.randint

    def fake_randint(lo, hi):
        draws.append((lo, hi))
        return lo if pick == 0 else hi

    async def app(scope, receive, send):
        if scope["type"] == "lifespan":
            while True:
                m = await receive()
                if m["type"] == "lifespan.startup":
                    await send({"type": "lifespan.startup.complete"})
                elif m["type"] == "lifespan.shutdown":
                    await send({"type": "lifespan.shutdown.complete"})
                    return
        await send({"type": "http.response.start", "status": 200, "headers": [(b"content-length", b"2")]})
        await send({"type": "http.response.body", "body": b"ok"})

    mod.randint = fake_randint
    served = 0
    try:
        srv = L.Served(backend, app, max_requests=mx, max_requests_jitter=jit, graceful_timeout=1.0, _no_trigger=no_trigger)
        first = srv.wait_listening()
        if first is not None:
            first.close()
        for _ in range(mx + max(jit, mx) + 4):
            if srv.result["returned_at"] is not None:
                break
            s = srv.try_connect()
            if s is None:
                break
            try:
                r = L.get(s, b"/", close=True, timeout=2.0)
            except Exception:  # noqa: BLE001
                r = None
            finally:
                s.close()
            if r is None or r[0] != 200:
                break
            served += 1
            # mark_request -> terminate -> worker_serve closes the listeners: give it time exactly when it is due
            due = bool(draws) and served >= mx + (draws[0][0] if pick == 0 else draws[0][1]) + 1
            end = time.monotonic() + (3.0 if due else 0.03)
            while srv.result["returned_at"] is None and time.monotonic() < end:
                time.sleep(0.01)
        end = time.monotonic() + 3.0
        while srv.result["returned_at"] is None and time.monotonic() < end:
            time.sleep(0.02)
        returned = srv.result["returned_at"] is not None
        if not returned:
            srv.stop()
    finally:
        mod.randint = orig
    return {"draws": draws, "j": (draws[0][0] if pick == 0 else draws[0][1]) if draws else None, "served": served, "returned": returned}


def run(ctx):
    return K.run_common(ctx, PROP, ["c18", "c06"], (200, 2500, 800), None, (250, 4000, 1500), kw,
                        "keep_alive_max_requests 0..5 against pipelines of 1-7 requests; heads just below / above "
                        "h11_max_incomplete_size fed in 1-5 pieces; HTTP/2 limits read back from the library objects; mark_request of "
                        "both worker contexts for max_requests x jitter x request counts, against the WorkerCtx model.", extra=extra)


def known_still_fails(k):
    if k.get("signature", "").startswith("F9:"):
        from .h2e2e import f9_witness

        return f9_witness()
    if k.get("signature") == "F14:app-queue-full-deadlock":
        from .c06 import f14_witness

        return f14_witness()
    return None


def replay(data):
    print(data)
    return 0
