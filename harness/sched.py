"""R-proto: a hand-rolled deterministic coroutine driver (no asyncio, no trio) that runs the
unmodified hypercorn protocol layer.  Every await that can suspend goes through `until(pred)`;
the driver owns the run queue, so a test chooses exactly which task runs next (FIFO, seeded
random, or an explicit list), detects quiescence, and advances a virtual clock when idle."""
from __future__ import annotations

import random
from typing import Callable, List, Optional


class Until:
    """Awaitable that suspends the current task until pred() holds (checked by the driver)."""

    def __init__(self, pred: Callable[[], bool], label: str = "") -> None:
        self.pred = pred
        self.label = label

    def __await__(self):
        while not self.pred():
            yield self


class Checkpoint:
    """Suspend once unconditionally (a scheduling point that is immediately runnable again)."""

    def __await__(self):
        yield Until(lambda: True, "checkpoint")


class Ev:
    """context.event_class with asyncio semantics (clear resets in place)."""

    def __init__(self) -> None:
        self._set = False

    async def clear(self) -> None:
        self._set = False

    async def set(self) -> None:
        self._set = True

    async def wait(self) -> None:
        await Until(lambda: self._set, "event")

    def is_set(self) -> bool:
        return self._set


class Task:
    def __init__(self, name: str, coro) -> None:
        self.name = name
        self.coro = coro
        self.waiting: Optional[Until] = None
        self.done = False
        self.error: Optional[BaseException] = None
        self.steps = 0

    def runnable(self) -> bool:
        return not self.done and (self.waiting is None or self.waiting.pred())


class Driver:
    def __init__(self, seed: int = 0, policy: str = "fifo") -> None:
        self.tasks: List[Task] = []
        self.rng = random.Random(seed)
        self.policy = policy
        self.now = 0.0
        self.timers: List[float] = []
        self.steps = 0
        self.trace: List[str] = []
        self.explicit: List[str] = []

    # ---- task management
    def spawn(self, name: str, coro) -> Task:
        t = Task(name, coro)
        self.tasks.append(t)
        return t

    def runnable(self) -> List[Task]:
        return [t for t in self.tasks if t.runnable()]

    def step(self, t: Task) -> None:
        self.steps += 1
        t.steps += 1
        self.trace.append(t.name)
        try:
            trap = t.coro.send(None)
        except StopIteration:
            t.done = True
            t.waiting = None
            return
        except BaseException as e:  # noqa: BLE001
            t.done = True
            t.waiting = None
            t.error = e
            return
        if not isinstance(trap, Until):
            t.done = True
            t.error = RuntimeError(f"task {t.name} awaited a foreign awaitable: {trap!r}")
            return
        t.waiting = trap

    def pick(self, cands: List[Task]) -> Task:
        if self.explicit:
            want = self.explicit.pop(0)
            for t in cands:
                if t.name == want:
                    return t
        if self.policy == "random":
            return self.rng.choice(cands)
        if self.policy == "lifo":
            return cands[-1]
        return cands[0]

    def run(self, max_steps: int = 100000, advance_time: bool = True) -> str:
        """Run until no task is runnable (advancing virtual time to the next timer when idle)."""
        while True:
            cands = self.runnable()
            if cands:
                if self.steps >= max_steps:
                    return "step-limit"
                self.step(self.pick(cands))
                continue
            if advance_time and self.timers:
                nxt = min(self.timers)
                self.timers.remove(nxt)
                self.now = max(self.now, nxt)
                continue
            return "quiescent"

    async def sleep(self, seconds: float) -> None:
        deadline = self.now + seconds
        self.timers.append(deadline)
        await Until(lambda: self.now >= deadline, "sleep")

    def advance_one(self) -> bool:
        """Advance virtual time to the next timer only (False if there is none)."""
        if not self.timers:
            return False
        nxt = min(self.timers)
        self.timers.remove(nxt)
        self.now = max(self.now, nxt)
        return True

    def alive(self) -> List[str]:
        return [t.name for t in self.tasks if not t.done]

    def errors(self):
        return [(t.name, t.error) for t in self.tasks if t.error is not None]


class BoundedQueue:
    def __init__(self, maxsize: int) -> None:
        self.maxsize = maxsize
        self.items: list = []

    async def put(self, item) -> None:
        await Until(lambda: self.maxsize <= 0 or len(self.items) < self.maxsize, "queue.put")
        self.items.append(item)

    async def get(self):
        await Until(lambda: len(self.items) > 0, "queue.get")
        return self.items.pop(0)


class RigContext:
    """WorkerContext stand-in (hypercorn.typing.WorkerContext protocol)."""

    event_class = Ev

    def __init__(self, driver: Driver, max_requests: Optional[int] = None) -> None:
        self.driver = driver
        self.max_requests = max_requests
        self.requests = 0
        self.terminate = Ev()
        self.terminated = Ev()

    async def mark_request(self) -> None:
        if self.max_requests is None:
            return
        self.requests += 1
        if self.requests > self.max_requests:
            await self.terminate.set()

    async def sleep(self, wait) -> None:
        await self.driver.sleep(wait)

    def time(self) -> float:
        return self.driver.now


class RigTaskGroup:
    """TaskGroup stand-in: application instances and helper tasks become driver tasks.  The real
    hypercorn `_handle` wrapper (asyncio flavour; it only names asyncio.CancelledError) is used."""

    def __init__(self, driver: Driver, on_spawn_app=None) -> None:
        self.driver = driver
        self.on_spawn_app = on_spawn_app
        self.apps = []
        self.n = 0

    async def spawn_app(self, app, config, scope, send):
        from hypercorn.asyncio.task_group import _handle

        q = BoundedQueue(config.max_app_queue_size)
        self.n += 1
        name = f"app{self.n}"
        inst = {"name": name, "scope": scope, "queue": q, "send": send, "puts": []}
        self.apps.append(inst)
        if self.on_spawn_app:
            self.on_spawn_app(inst)
        self.driver.spawn(name, _handle(app, config, scope, q.get, send, None, None))

        async def put(item):
            inst["puts"].append(item)      # what the server hands to this application instance, in order
            await q.put(item)
            if getattr(self, "worker", None) == "trio":
                await Checkpoint()         # trio's MemorySendChannel.send always yields once the item is in the channel

        return put

    def spawn(self, func, *args) -> None:
        self.n += 1
        self.driver.spawn(f"{getattr(func, '__name__', 'task')}{self.n}", func(*args))


class Transport:
    """In-memory transport behind the rig's protocol_send: scriptable pause and failure."""

    def __init__(self) -> None:
        self.written = bytearray()
        self.paused = False
        self.fail_after: Optional[int] = None   # fail the k-th write from now (0 = next)
        self.failed = False
        self.closed = False
        self.writes = 0


class Lock:
    """FIFO lock, as asyncio.Lock and trio.Lock are: waiters acquire it in the order they asked."""

    def __init__(self) -> None:
        self.held = False
        self.next_ticket = 0
        self.serving = 0

    async def __aenter__(self):
        ticket = self.next_ticket
        self.next_ticket += 1
        await Until(lambda: not self.held and self.serving == ticket, "lock")
        self.held = True

    async def __aexit__(self, *a):
        self.held = False
        self.serving += 1


EOF_MARK = object()


class AppBoom(Exception):
    pass


class ProtoRig:
    """The server side of one connection: the real ProtocolWrapper (H11Protocol / H2Protocol /
    streams) on top of the driver, a reader task mirroring TCPServer._read_data and a
    protocol_send mirroring TCPServer.protocol_send (worker = "asyncio" | "trio")."""

    def __init__(self, app, config, driver: Optional[Driver] = None, alpn: str = "http/1.1", ssl: bool = False,
                 worker: str = "asyncio", max_requests: Optional[int] = None, state=None) -> None:
        from hypercorn.app_wrappers import ASGIWrapper
        from hypercorn.protocol import ProtocolWrapper
        from hypercorn.typing import ConnectionState

        self.driver = driver or Driver()
        self.config = config
        self.context = RigContext(self.driver, max_requests)
        self.tg = RigTaskGroup(self.driver)
        self.tg.worker = worker
        self.transport = Transport()
        self.worker = worker
        self.events: list = []          # ("Updated", idle) / ("Closed",) in order, with the bytes written so far
        self.closed = False
        self.idle: Optional[bool] = None
        self.lock = Lock()
        self.inbox = BoundedQueue(0)
        self.handler_errors: list = []
        self.protocol = ProtocolWrapper(ASGIWrapper(app), config, self.context, self.tg, ConnectionState(state or {}), ssl,
                                        ("10.0.0.1", 4321), ("10.0.0.2", 443 if ssl else 80), self.protocol_send, alpn)
        self.reader = self.driver.spawn("reader", self._reader())

    async def protocol_send(self, event) -> None:
        from hypercorn.events import Closed, RawData, Updated

        if isinstance(event, RawData):
            async with self.lock:
                t = self.transport
                if t.failed or t.closed or (t.fail_after is not None and t.fail_after <= 0):
                    t.failed = True
                    await self.protocol.handle(Closed())
                else:
                    if t.fail_after is not None:
                        t.fail_after -= 1
                    t.written += event.data
                    t.writes += 1
                    if self.worker == "trio":
                        await Checkpoint()          # trio's send_all always yields to the scheduler
                    await Until(lambda: not t.paused or t.failed or t.closed, "drain")
        elif isinstance(event, Closed):
            self.events.append(("Closed", len(self.transport.written)))
            self._close()
            if self.worker == "trio":
                await self.protocol.handle(Closed())
        elif isinstance(event, Updated):
            if self.worker == "trio":
                await Checkpoint()          # trio's TaskWrapper.restart/stop take a trio.Lock: acquiring it always yields
            self.idle = event.idle
            self.events.append(("Updated", event.idle, len(self.transport.written)))

    def _close(self) -> None:
        if not self.closed:
            self.closed = True
            self.transport.closed = True
            self.inbox.items.append(EOF_MARK)

    async def _reader(self) -> None:
        from hypercorn.events import Closed, RawData

        await self.protocol.initiate()
        while True:
            item = await self.inbox.get()
            if item is EOF_MARK:
                break
            await self.protocol.handle(RawData(item))
            if self.worker == "trio" and item == b"":
                break
        await self.protocol.handle(Closed())

    # ---- client side actions
    def feed(self, data: bytes) -> None:
        self.inbox.items.append(bytes(data))

    def eof(self) -> None:
        self.inbox.items.append(EOF_MARK)

    def run(self, **kw) -> str:
        return self.driver.run(**kw)

    def take_written(self) -> bytes:
        data = bytes(self.transport.written)
        return data


def scripted_app(scripts, records, driver: Driver, default=None):
    """ASGI application whose k-th instance executes scripts[k] (a list of steps):
    ("send", msg_dict) ("recv",) ("recv_all",) ("raise",) ("return",) ("sleep", seconds).
    Each instance appends a record {"scope", "received", "sends"} to `records`."""

    async def app(scope, receive, send):
        k = len(records)
        rec = {"scope": scope, "received": [], "sends": [], "finished": False}
        records.append(rec)
        steps = scripts[k] if k < len(scripts) else (default or [("recv_all",)])
        from .rig import exn_tag

        for st in steps:
            if st[0] == "send":
                try:
                    await send(st[1])
                    rec["sends"].append(["ok"])
                except Exception as e:  # noqa: BLE001
                    rec["sends"].append(["raise", exn_tag(e)])
            elif st[0] == "send!":   # like "send", but the application lets the exception propagate
                try:
                    await send(st[1])
                    rec["sends"].append(["ok"])
                except Exception as e:  # noqa: BLE001
                    rec["sends"].append(["raise", exn_tag(e)])
                    raise
            elif st[0] == "recv":
                rec["received"].append(await receive())
            elif st[0] == "recv_all":
                while True:
                    m = await receive()
                    rec["received"].append(m)
                    if m["type"] in ("http.disconnect", "websocket.disconnect"):
                        break
                    if m["type"] == "http.request" and not m.get("more_body"):
                        break
            elif st[0] == "recv_until_disconnect":
                while True:
                    m = await receive()
                    rec["received"].append(m)
                    if m["type"] in ("http.disconnect", "websocket.disconnect"):
                        break
            elif st[0] == "mark":
                await Checkpoint()
                rec.setdefault("marks", []).append(st[1]())
            elif st[0] == "raise":
                rec["crashed"] = True
                raise AppBoom()
            elif st[0] == "return":
                break
            elif st[0] == "sleep":
                await driver.sleep(st[1])
        rec["finished"] = True

    return app
