"""R-proto: a hand-rolled deterministic coroutine driver (no asyncio, no trio) that runs the
unmodified hypercorn protocol layer.  Every await that can suspend goes through `until(pred)`;
the driver owns the run queue, so a test chooses exactly which task runs next (FIFO, seeded
random, or an explicit list), detects quiescence, and advances a virtual clock when idle."""
from __future__ import annotations

import random
from typing import Callable, List, Optional


class Until:
    """Awaitable that suspends the current task until pred() holds (checked by the driver)."""

    def __init__(self, pred: Callable[[], bool], label: str = "") -> None:
        self.pred = pred
        self.label = label

    def __await__(self):
        while not self.pred():
            yield self


class Checkpoint:
    """Suspend once unconditionally (a scheduling point that is immediately runnable again)."""

    def __await__(self):
        yield Until(lambda: True, "checkpoint")


class Ev:
    """context.event_class with asyncio semantics (clear resets in place)."""

    def __init__(self) -> None:
        self._set = False

    async def clear(self) -> None:
        self._set = False

    async def set(self) -> None:
        self._set = True

    async def wait(self) -> None:
        await Until(lambda: self._set, "event")

    def is_set(self) -> bool:
        return self._set


class Task:
    def __init__(self, name: str, coro) -> None:
        self.name = name
        self.coro = coro
        self.waiting: Optional[Until] = None
        self.done = False
        self.error: Optional[BaseException] = None
        self.steps = 0

    def runnable(self) -> bool:
        return not self.done and (self.waiting is None or self.waiting.pred())


class Driver:
    def __init__(self, seed: int = 0, policy: str = "fifo") -> None:
        self.tasks: List[Task] = []
        self.rng = random.Random(seed)
        self.policy = policy
        self.now = 0.0
        self.timers: List[float] = []
        self.steps = 0
        self.trace: List[str] = []
        self.explicit: List[str] = []

    # ---- task management
    def spawn(self, name: str, coro) -> Task:
        t = Task(name, coro)
        self.tasks.append(t)
        return t

    def runnable(self) -> List[Task]:
        return [t for t in self.tasks if t.runnable()]

    def step(self, t: Task) -> None:
        self.steps += 1
        t.steps += 1
        self.trace.append(t.name)
        try:
            trap = t.coro.send(None)
        except StopIteration:
            t.done = True
            t.waiting = None
            return
        except BaseException as e:  # noqa: BLE001
            t.done = True
            t.waiting = None
            t.error = e
            return
        if not isinstance(trap, Until):
            t.done = True
            t.error = RuntimeError(f"task {t.name} awaited a foreign awaitable: {trap!r}")
            return
        t.waiting = trap

    def pick(self, cands: List[Task]) -> Task:
        if self.explicit:
            want = self.explicit.pop(0)
            for t in cands:
                if t.name == want:
                    return t
        if self.policy == "random":
            return self.rng.choice(cands)
        if self.policy == "lifo":
            return cands[-1]
        return cands[0]

    def run(self, max_steps: int = 100000, advance_time: bool = True) -> str:
        """Run until no task is runnable (advancing virtual time to the next timer when idle)."""
        while True:
            cands = self.runnable()
            if cands:
                if self.steps >= max_steps:
                    return "step-limit"
                self.step(self.pick(cands))
                continue
            if advance_time and self.timers:
                nxt = min(self.timers)
                self.timers.remove(nxt)
                self.now = max(self.now, nxt)
                continue
            return "quiescent"

    async def sleep(self, seconds: float) -> None:
        deadline = self.now + seconds
        self.timers.append(deadline)
        await Until(lambda: self.now >= deadline, "sleep")

    def alive(self) -> List[str]:
        return [t.name for t in self.tasks if not t.done]

    def errors(self):
        return [(t.name, t.error) for t in self.tasks if t.error is not None]


class BoundedQueue:
    def __init__(self, maxsize: int) -> None:
        self.maxsize = maxsize
        self.items: list = []

    async def put(self, item) -> None:
        await Until(lambda: self.maxsize <= 0 or len(self.items) < self.maxsize, "queue.put")
        self.items.append(item)

    async def get(self):
        await Until(lambda: len(self.items) > 0, "queue.get")
        return self.items.pop(0)


class RigContext:
    """WorkerContext stand-in (hypercorn.typing.WorkerContext protocol)."""

    event_class = Ev

    def __init__(self, driver: Driver, max_requests: Optional[int] = None) -> None:
        self.driver = driver
        self.max_requests = max_requests
        self.requests = 0
        self.terminate = Ev()
        self.terminated = Ev()

    async def mark_request(self) -> None:
        if self.max_requests is None:
            return
        self.requests += 1
        if self.requests > self.max_requests:
            await self.terminate.set()

    async def sleep(self, wait) -> None:
        await self.driver.sleep(wait)

    def time(self) -> float:
        return self.driver.now


class RigTaskGroup:
    """TaskGroup stand-in: application instances and helper tasks become driver tasks.  The real
    hypercorn `_handle` wrapper (asyncio flavour; it only names asyncio.CancelledError) is used."""

    def __init__(self, driver: Driver, on_spawn_app=None) -> None:
        self.driver = driver
        self.on_spawn_app = on_spawn_app
        self.apps = []
        self.n = 0

    async def spawn_app(self, app, config, scope, send):
        from hypercorn.asyncio.task_group import _handle

        q = BoundedQueue(config.max_app_queue_size)
        self.n += 1
        name = f"app{self.n}"
        inst = {"name": name, "scope": scope, "queue": q, "send": send}
        self.apps.append(inst)
        if self.on_spawn_app:
            self.on_spawn_app(inst)
        self.driver.spawn(name, _handle(app, config, scope, q.get, send, None, None))
        return q.put

    def spawn(self, func, *args) -> None:
        self.n += 1
        self.driver.spawn(f"{getattr(func, '__name__', 'task')}{self.n}", func(*args))


class Transport:
    """In-memory transport behind the rig's protocol_send: scriptable pause and failure."""

    def __init__(self) -> None:
        self.written = bytearray()
        self.paused = False
        self.fail_after: Optional[int] = None   # fail the k-th write from now (0 = next)
        self.failed = False
        self.closed = False
        self.writes = 0
