"""C10: WebSocket message fidelity and size limit.
(a) stream-level correspondence (real WSStream, scripted wsproto events) against coq/model/WsStream.v;
(b) end-to-end oracle: real wsproto client <-> real protocol stack over both carriers."""
from __future__ import annotations

from . import common as C
from . import rig as R
from . import streams as ST
from . import wsrig as W

PROP = "C10"

TEXTS = ["", "a", "hello", "héllo", "€uro", "\U0001F600", "x" * 9, "x" * 10, "x" * 11, "é" * 6, "long text " * 20]
BLOBS = [b"", b"\x00", b"\xff\xfe", b"b" * 9, b"b" * 10, b"b" * 11, bytes(range(256)), b"z" * 3000]


def stream_cases(ctx, n):
    """WSStream after a valid handshake + accept, fed batches of scripted wsproto events."""
    rng = ctx.rng
    out = []
    for _ in range(n):
        maxm = rng.choice([4, 8, 10, 1000])
        version = rng.choice(["1.1", "2"])
        hs = list(ST.VALID_WS) if version == "1.1" else [(b"host", b"example.com"), (b"sec-websocket-version", b"13")]
        req = ("wrequest", hs, version, b"/ws")
        sends = [rng.choice([b"F", b"FR", None]) for _ in range(rng.randint(0, 8))]
        inputs = [req, ("app", ("ws.accept", None, []))]
        frag_state = [None]
        for _ in range(rng.randint(1, 5)):
            inputs.append(("wdata", ST.gen_ws_events(rng, frag_state)))
            if rng.random() < 0.2:
                inputs.append(("app", ("ws.send", ("b", b"srv"), ("n",))))
        case = ([], False, maxm, False, ST.accept_token(b"dGhlIHNhbXBsZSBub25jZQ=="), None, sends, [], True, inputs)
        obs = ST.run_ws_case(case[0], case[1], case[2], case[3], case[5], list(case[6]), list(case[7]), case[8], case[9])
        out.append((ST.ws_case_term(*case), C.V(obs), {"kind": "stream", "max": maxm, "inputs": inputs, "obs": obs}))
    return out


def gen_message(rng, limit):
    is_text = rng.random() < 0.5
    if rng.random() < 0.35 and limit is not None:
        size = rng.choice([limit - 1, limit, limit + 1, limit + 5, max(0, limit - 3)])
        payload = ("é" if rng.random() < 0.5 else "x") * size if is_text else bytes([rng.randrange(256)]) * size
    else:
        payload = rng.choice(TEXTS) if is_text else rng.choice(BLOBS)
    n = len(payload)
    cuts = sorted(set(rng.randint(0, n) for _ in range(rng.choice([0, 0, 1, 2, 3])))) if n else []
    frags = [payload[a:b] for a, b in zip([0] + cuts, cuts + [n])]
    return is_text, payload, frags


def e2e_case(ctx, idx):
    from wsproto.events import BytesMessage, CloseConnection, Ping, TextMessage

    rng = ctx.rng
    carrier = "h11" if idx % 2 == 0 else "h2"
    deflate = rng.random() < 0.35
    limit = rng.choice([None, None, 10, 10, 64])
    server_msgs = []
    for _ in range(rng.choice([0, 0, 1, 3])):
        if rng.random() < 0.5:
            server_msgs.append(("text", rng.choice(TEXTS)))
        else:
            server_msgs.append(("bytes", rng.choice(BLOBS)))
    steps = [("recv",), ("send", {"type": "websocket.accept"})]
    for k, p in server_msgs:
        steps.append(("send", {"type": "websocket.send", "text": p} if k == "text" else {"type": "websocket.send", "bytes": p}))
    steps.append(("recv_until_disconnect",))
    s = W.WsSession(carrier, steps, max_message=limit, deflate=deflate, queue_size=rng.choice([None, 1, 2]))
    s.open(split=rng.choice([None, 1, 30]) if carrier == "h11" else None)
    sent, pings, over = [], [], False
    script = []
    for _ in range(rng.randint(0, 6)):
        is_text, payload, frags = gen_message(rng, limit)
        measure = len(payload)
        script.append((is_text, len(payload), len(frags)))
        acc = 0
        for i, f in enumerate(frags):
            last = i == len(frags) - 1
            acc += len(f)
            if limit is not None and acc > limit:
                over = True
            ev = TextMessage(data=f, message_finished=last) if is_text else BytesMessage(data=f, message_finished=last)
            chunks = [rng.randint(1, 8)] if rng.random() < 0.3 else None
            s.send_event(ev, chunks=chunks)
            if not last and not s.negotiated_deflate and rng.random() < 0.4 and not over:
                p = bytes(rng.randrange(256) for _ in range(rng.randint(0, 4)))
                s.send_event(Ping(payload=p))
                pings.append(p)
        if limit is not None and measure > limit:
            over = True
        if not over:
            sent.append(("text" if is_text else "bytes", payload))
        if rng.random() < 0.3 and not over:
            p = bytes(rng.randrange(256) for _ in range(rng.randint(0, 4)))
            s.send_event(Ping(payload=p))
            pings.append(p)
        if over:
            # whatever follows must not be delivered either
            from wsproto.connection import Connection, ConnectionType
            s.send_raw(Connection(ConnectionType.CLIENT).send(TextMessage(data="after", message_finished=True)))
            break
    if not over:
        s.send_event(CloseConnection(code=1000))
    app = s.app()
    delivered = [("text", m["text"]) if m.get("text") is not None else ("bytes", m["bytes"])
                 for m in (app["received"] if app else []) if m["type"] == "websocket.receive"]
    pongs = [e[1] for e in s.events if e[0] == "pong"]
    closes = [e for e in s.events if e[0] == "close"]
    case = {"kind": "e2e", "carrier": carrier, "deflate": s.negotiated_deflate, "limit": limit, "messages": script,
            "pings": len(pings), "over_limit": over, "server_messages": [(k, len(p)) for k, p in server_msgs],
            "delivered": [(k, len(p)) for k, p in delivered], "closes": [(c[1]) for c in closes]}
    fails = []
    if s.handshake is None or s.handshake[0] != "accept":
        fails.append({"case": case, "what": f"handshake failed: {s.handshake}", "signature": "e2e:handshake"})
        return case, fails
    if delivered != sent:
        fails.append({"case": case, "what": f"delivered {[(k, p[:20]) for k, p in delivered]} != sent {[(k, p[:20]) for k, p in sent]}",
                      "signature": "e2e:delivery" + (":after-limit" if over else "")})
    if pongs != pings:
        fails.append({"case": case, "what": f"pongs {pongs} != pings {pings}", "signature": "e2e:pong"})
    if over and not any(c[1] == 1009 for c in closes):
        fails.append({"case": case, "what": f"no 1009 close after an over-limit message: {closes}", "signature": "e2e:1009"})
    got = s.messages_seen_by_client()
    if got != server_msgs:
        fails.append({"case": case, "what": f"client saw {[(k, p[:20]) for k, p in got]} != application sent", "signature": "e2e:send-path"})
    errs = [(n, repr(e)) for n, e in s.driver.errors()]
    if errs:
        fails.append({"case": case, "what": f"task errors {errs}", "signature": "e2e:task-error"})
    return case, fails


def run(ctx):
    cases = stream_cases(ctx, ctx.scale(500, 6000, 2000))
    e2e, oracle_failures = [], []
    for i in range(ctx.scale(300, 4000, 1500)):
        case, fails = e2e_case(ctx, i)
        e2e.append(case)
        oracle_failures.extend(fails)
    disagreements, err = [], None
    if ctx.mode != "search":
        failing, err = C.coq_failing(PROP, ST.PREAMBLE, ST.INPUT_TY, ST.FUN, [(a, b) for a, b, _ in cases])
        for k in failing[:5]:
            disagreements.append({"case": cases[k][2], "model": C.coq_show(PROP, ST.PREAMBLE, ST.FUN, cases[k][0])[-1500:]})
        disagreements.extend({"case": cases[k][2]} for k in failing[5:40])
    dist = {"stream_cases": len(cases), "e2e_sessions": len(e2e),
            "e2e_over_limit": sum(1 for c in e2e if c["over_limit"]), "e2e_deflate": sum(1 for c in e2e if c["deflate"]),
            "e2e_h2": sum(1 for c in e2e if c["carrier"] == "h2"),
            "e2e_messages": sum(len(c["messages"]) for c in e2e), "e2e_fragmented": sum(1 for c in e2e for m in c["messages"] if m[2] > 1),
            "e2e_pings": sum(c["pings"] for c in e2e),
            "stream_receives": sum(1 for _, _, m in cases for step in m["obs"] for o in step[0] if o[0] == "app_put" and o[2][0] == "websocket.receive")}
    return {
        "evaluations": len(cases) + len(e2e),
        "distinct_nontrivial": len({repr(m["obs"]) for _, _, m in cases}) + len({repr(c) for c in e2e if c["messages"]}),
        "rule": "stream level: accepted WSStream fed batches of scripted wsproto events (fragments, pings, pongs, closes, sizes "
                "around the limit); end to end: real wsproto client over HTTP/1.1 upgrade and HTTP/2 extended CONNECT, with and "
                "without permessage-deflate, random fragmentation and read segmentation, pings between fragments, sizes around "
                "websocket_max_message_size (bytes vs. characters), application sends. distinct = distinct traces / sessions.",
        "samples": [cases[0][2], e2e[0], e2e[1]],
        "disagreements": disagreements,
        "oracle_failures": oracle_failures,
        "model_eval_error": err,
        "distribution": dist,
        "assumptions": ["wsproto frame codec, UTF-8 decoding and permessage-deflate are wsproto's (not modelled)",
                        "wsproto 1.3.2 corrupts a compressed fragmented message when a control frame is interleaved (reproduced with "
                        "two bare wsproto Connection objects), so pings between fragments are generated without deflate only"],
    }


def known_still_fails(k):
    return None


def replay(data):
    print(data)
    return 0
