"""WebSocket sessions through the real protocol stack (ProtocolWrapper -> H11Protocol/H2Protocol ->
WSStream -> real wsproto) under the R-proto driver, with an independent wsproto / h2 client.
Used by C10 (message fidelity) and C11 (handshake / lifecycle)."""
from __future__ import annotations

import base64
import hashlib

from . import rig as R
from . import sched as S

KEY = b"dGhlIHNhbXBsZSBub25jZQ=="


def accept_token(key: bytes) -> bytes:
    return base64.b64encode(hashlib.sha1(key + b"258EAFA5-E914-47DA-95CA-C5AB0DC85B11").digest())


class WsSession:
    """One connection.  carrier: 'h11' | 'h2'."""

    def __init__(self, carrier, app_steps, max_message=None, deflate=False, headers=None, raw_request=None,
                 server_names=(), ping_interval=None, policy="fifo", seed=0, queue_size=None, worker="asyncio"):
        from wsproto.connection import Connection, ConnectionType
        from wsproto.extensions import PerMessageDeflate

        self.carrier = carrier
        self.driver = S.Driver(seed=seed, policy=policy)
        cfg = R.make_config(server_names)
        if max_message is not None:
            cfg.websocket_max_message_size = max_message
        if ping_interval is not None:
            cfg.websocket_ping_interval = ping_interval
        if queue_size is not None:
            cfg.max_app_queue_size = queue_size
        self.log = []
        cfg._log = R.RecLog(self.log)
        self.records = []
        app = S.scripted_app([app_steps], self.records, self.driver)
        self.deflate = deflate
        self.events = []          # what the client sees, canonical
        self.handshake = None     # ("accept", status, headers) | ("reject", status, headers, body) | None
        self.consumed = 0
        self.ext = [PerMessageDeflate()] if deflate else []
        self.client = Connection(ConnectionType.CLIENT)
        self.negotiated_deflate = False
        self.reject_body = b""
        if carrier == "h11":
            import h11

            self.rig = S.ProtoRig(app, cfg, self.driver, worker=worker)
            self.h11 = h11
            self.hc = h11.Connection(h11.CLIENT)
            self.hc.send(h11.Request(method="GET", target="/chat", headers=[("host", "example.com"), ("upgrade", "websocket"),
                                                                              ("connection", "upgrade")]))
            self.hc.send(h11.EndOfMessage())
            if raw_request is None:
                hs = [(b"host", b"example.com"), (b"upgrade", b"websocket"), (b"connection", b"Upgrade"),
                      (b"sec-websocket-key", KEY), (b"sec-websocket-version", b"13")]
                if deflate:
                    hs.append((b"sec-websocket-extensions", b"permessage-deflate"))
                hs += list(headers or [])
                raw_request = b"GET /chat?x=1 HTTP/1.1\r\n" + b"".join(n + b": " + v + b"\r\n" for n, v in hs) + b"\r\n"
            self.raw_request = raw_request
        else:
            import h2.config
            import h2.connection

            self.rig = S.ProtoRig(app, cfg, self.driver, alpn="h2", ssl=True, worker=worker)
            self.h2c = h2.connection.H2Connection(h2.config.H2Configuration(client_side=True, header_encoding=None))
            self.h2c.initiate_connection()
            self.rig.feed(self.h2c.data_to_send())
            self.rig.run()
            self._pump_h2()
            hs = [(b":method", b"CONNECT"), (b":protocol", b"websocket"), (b":scheme", b"https"), (b":path", b"/chat?x=1"),
                  (b":authority", b"example.com"), (b"sec-websocket-version", b"13")]
            if deflate:
                hs.append((b"sec-websocket-extensions", b"permessage-deflate"))
            hs += list(headers or [])
            self.request_headers = hs

    # ---- plumbing
    def _new_bytes(self) -> bytes:
        w = self.rig.transport.written
        data = bytes(w[self.consumed:])
        self.consumed = len(w)
        return data

    def _pump_h2(self):
        import h2.events

        data = self._new_bytes()
        if not data:
            return
        for ev in self.h2c.receive_data(data):
            if isinstance(ev, h2.events.ResponseReceived):
                status = int(dict(ev.headers)[b":status"])
                hs = [(n, v) for n, v in ev.headers if not n.startswith(b":")]
                self.handshake = ("accept", status, hs) if status == 200 else ("reject", status, hs)
                self._finalize_extensions()
            elif isinstance(ev, h2.events.DataReceived):
                self.h2c.acknowledge_received_data(ev.flow_controlled_length, ev.stream_id)
                if self.handshake and self.handshake[0] == "accept":
                    self.client.receive_data(ev.data)
                    self._collect_ws()
                else:
                    self.reject_body += ev.data
            elif isinstance(ev, h2.events.StreamEnded):
                self.events.append(("stream-ended",))
            elif isinstance(ev, h2.events.StreamReset):
                self.events.append(("stream-reset", ev.error_code))
            elif isinstance(ev, h2.events.ConnectionTerminated):
                self.events.append(("goaway",))
        out = self.h2c.data_to_send()
        if out:
            self.rig.feed(out)

    def _pump_h11(self):
        h11 = self.h11
        data = self._new_bytes()
        if not data:
            return
        if self.handshake and self.handshake[0] == "accept":
            self.client.receive_data(data)
            self._collect_ws()
            return
        self.hc.receive_data(data)
        while True:
            try:
                ev = self.hc.next_event()
            except h11.RemoteProtocolError:
                self.events.append(("client-parse-error",))
                break
            if ev is h11.NEED_DATA or ev is h11.PAUSED:
                break
            if isinstance(ev, h11.InformationalResponse) and ev.status_code == 101:
                self.handshake = ("accept", 101, [(bytes(n), bytes(v)) for n, v in ev.headers])
                self._finalize_extensions()
                rest = self.hc.trailing_data[0]
                if rest:
                    self.client.receive_data(rest)
                    self._collect_ws()
                break
            if isinstance(ev, h11.Response):
                self.handshake = ("reject", ev.status_code, [(bytes(n), bytes(v)) for n, v in ev.headers])
            elif isinstance(ev, h11.Data):
                self.reject_body += bytes(ev.data)
            elif isinstance(ev, h11.EndOfMessage):
                self.events.append(("response-complete",))
                break
            elif isinstance(ev, h11.ConnectionClosed):
                break

    def _finalize_extensions(self):
        """The handshake is done: build the client-side frame protocol with what was negotiated."""
        from wsproto.connection import Connection, ConnectionType
        from wsproto.extensions import PerMessageDeflate

        if self.handshake and self.handshake[0] == "accept":
            for n, v in self.handshake[2]:
                if n.lower() == b"sec-websocket-extensions":
                    ext = PerMessageDeflate()
                    ext.finalize(v.decode())
                    self.client = Connection(ConnectionType.CLIENT, [ext])
                    self.negotiated_deflate = True

    def _collect_ws(self):
        from wsproto.events import BytesMessage, CloseConnection, Ping, Pong, TextMessage

        for ev in self.client.events():
            if isinstance(ev, TextMessage):
                self.events.append(("text", ev.data, ev.message_finished))
            elif isinstance(ev, BytesMessage):
                self.events.append(("bytes", bytes(ev.data), ev.message_finished))
            elif isinstance(ev, Pong):
                self.events.append(("pong", bytes(ev.payload)))
            elif isinstance(ev, Ping):
                self.events.append(("ping", bytes(ev.payload)))
            elif isinstance(ev, CloseConnection):
                self.events.append(("close", int(ev.code), ev.reason))

    def pump(self):
        self.rig.run()
        for _ in range(6):
            before = (self.consumed, len(self.rig.inbox.items))
            if self.carrier == "h11":
                self._pump_h11()
            else:
                self._pump_h2()
            self.rig.run()
            if (self.consumed, len(self.rig.inbox.items)) == before and self.consumed == len(self.rig.transport.written):
                break

    # ---- client actions
    def open(self, split=None):
        if self.carrier == "h11":
            data = self.raw_request
            if split:
                self.rig.feed(data[:split])
                self.rig.run()
                self.rig.feed(data[split:])
            else:
                self.rig.feed(data)
        else:
            self.h2c.send_headers(1, self.request_headers, end_stream=False)
            self.rig.feed(self.h2c.data_to_send())
        self.pump()

    def send_raw(self, data: bytes, chunks=None):
        """Send WebSocket bytes (already framed) to the server, optionally split into reads."""
        if self.carrier == "h11":
            parts = [data] if not chunks else chunks
            for p in parts:
                self.rig.feed(p)
                self.rig.run()
        else:
            parts = [data] if not chunks else chunks
            for p in parts:
                if p:
                    try:
                        self.h2c.send_data(1, p)
                    except Exception:  # noqa: BLE001  (the server has closed the stream: the client cannot send any more)
                        self.events.append(("client-cannot-send",))
                        break
                    self.rig.feed(self.h2c.data_to_send())
                    self.rig.run()
        self.pump()

    def send_event(self, ev, chunks=None):
        from wsproto.connection import Connection, ConnectionType
        from wsproto.utilities import LocalProtocolError

        try:
            data = self.client.send(ev)
        except LocalProtocolError:
            # the server has already closed: frame the event with a throw-away encoder
            data = Connection(ConnectionType.CLIENT).send(ev)
        if chunks:
            cuts = sorted(set(min(len(data), c) for c in chunks))
            parts = [data[a:b] for a, b in zip([0] + cuts, cuts + [len(data)])]
            self.send_raw(data, [p for p in parts if p])
        else:
            self.send_raw(data)

    def eof(self):
        self.rig.eof()
        self.pump()

    def app(self):
        return self.records[0] if self.records else None

    def messages_seen_by_client(self):
        """Reassemble complete messages from the client's event list."""
        out, cur, kind = [], None, None
        for e in self.events:
            if e[0] in ("text", "bytes"):
                if cur is None:
                    cur, kind = e[1], e[0]
                else:
                    cur = cur + e[1]
                if e[2]:
                    out.append((kind, cur))
                    cur = None
        return out
