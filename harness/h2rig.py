"""HTTP/2 sessions through the real protocol stack (ProtocolWrapper -> H2Protocol -> streams, real
h2 and priority libraries) under the R-proto driver, with an independent h2 client.
Used by C04, C08, C09 (and the HTTP/2 parts of C01, C02, C05, C18)."""
from __future__ import annotations

from . import rig as R
from . import sched as S


class H2Session:
    def __init__(self, app_scripts, policy="fifo", seed=0, queue_size=None, max_requests=None, client_settings=None,
                 server_names=(), config_kw=None, default_script=None, app=None, raw_client=False, worker="asyncio"):
        import h2.config
        import h2.connection

        self.driver = S.Driver(seed=seed, policy=policy)
        cfg = R.make_config(server_names, **(config_kw or {}))
        if queue_size is not None:
            cfg.max_app_queue_size = queue_size
        if max_requests is not None:
            cfg.keep_alive_max_requests = max_requests
        self.log = []
        cfg._log = R.RecLog(self.log)
        self.cfg = cfg
        self.records = []
        self.app = app(self) if app is not None else S.scripted_app(app_scripts, self.records, self.driver, default=default_script)
        self.rig = S.ProtoRig(self.app, cfg, self.driver, alpn="h2", ssl=True, worker=worker)
        self.client = h2.connection.H2Connection(h2.config.H2Configuration(
            client_side=True, header_encoding=None, normalize_outbound_headers=not raw_client, validate_outbound_headers=not raw_client))
        self.client.initiate_connection()
        if client_settings:
            self.client.update_settings(client_settings)
        self.consumed = 0
        self.events = []            # (kind, stream_id, payload...)
        self.data = {}              # stream_id -> bytes received
        self.headers = {}           # stream_id -> response headers
        self.ended = {}             # stream_id -> count of END_STREAM
        self.reset = {}
        self.auto_ack = True        # acknowledge received data (grant flow-control credit back)
        self.client_error = None
        self.max_buffered = 0
        self.flush()

    # ---- plumbing
    def flush(self):
        out = self.client.data_to_send()
        if out:
            self.rig.feed(out)
        self.pump()

    def _note_buffers(self):
        p = self.rig.protocol.protocol
        bufs = getattr(p, "stream_buffers", {})
        for b in bufs.values():
            self.max_buffered = max(self.max_buffered, len(b.buffer))

    def pump(self, rounds=8):
        import h2.events
        import h2.exceptions

        for _ in range(rounds):
            self.rig.run()
            self._note_buffers()
            w = self.rig.transport.written
            if self.consumed == len(w):
                break
            data = bytes(w[self.consumed:])
            self.consumed = len(w)
            try:
                evs = self.client.receive_data(data)
            except h2.exceptions.ProtocolError as e:
                self.client_error = repr(e)
                break
            for ev in evs:
                sid = getattr(ev, "stream_id", None)
                if isinstance(ev, h2.events.ResponseReceived):
                    self.headers.setdefault(sid, []).append(list(ev.headers))
                    self.events.append(("response", sid))
                elif isinstance(ev, h2.events.InformationalResponseReceived):
                    self.events.append(("informational", sid, list(ev.headers)))
                elif isinstance(ev, h2.events.DataReceived):
                    self.data[sid] = self.data.get(sid, b"") + ev.data
                    self.events.append(("data", sid, len(ev.data)))
                    if self.auto_ack:
                        self.client.acknowledge_received_data(ev.flow_controlled_length, sid)
                elif isinstance(ev, h2.events.TrailersReceived):
                    self.events.append(("trailers", sid, list(ev.headers)))
                elif isinstance(ev, h2.events.StreamEnded):
                    self.ended[sid] = self.ended.get(sid, 0) + 1
                    self.events.append(("end", sid))
                elif isinstance(ev, h2.events.StreamReset):
                    self.reset[sid] = ev.error_code
                    self.events.append(("reset", sid, int(ev.error_code)))
                elif isinstance(ev, h2.events.PushedStreamReceived):
                    self.events.append(("push", ev.pushed_stream_id, ev.parent_stream_id))
                elif isinstance(ev, h2.events.ConnectionTerminated):
                    self.events.append(("goaway", ev.last_stream_id, int(ev.error_code)))
            out = self.client.data_to_send()
            if out:
                self.rig.feed(out)

    # ---- client actions
    def request(self, stream_id, method="GET", path="/", headers=(), body=None, end=True, authority=b"example.com", extra_pseudo=()):
        hs = [(b":method", method.encode()), (b":path", path.encode() if isinstance(path, str) else path), (b":scheme", b"https"),
              (b":authority", authority)] + list(extra_pseudo) + list(headers)
        self.client.send_headers(stream_id, hs, end_stream=(end and body is None))
        if body is not None:
            self.client.send_data(stream_id, body, end_stream=end)
        self.flush()

    def raw(self, data: bytes):
        self.rig.feed(data)
        self.pump()

    def window_update(self, stream_id, increment):
        self.client.increment_flow_control_window(increment, stream_id if stream_id else None)
        self.flush()

    def reset_stream(self, stream_id, code=8):
        self.client.reset_stream(stream_id, error_code=code)
        self.flush()

    def eof(self):
        self.rig.eof()
        self.pump()

    def alive(self):
        return self.driver.alive()

    def errors(self):
        return [(n, repr(e)) for n, e in self.driver.errors()]

    def protocol(self):
        return self.rig.protocol.protocol
