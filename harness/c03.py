"""C03: exactly-once disconnect and access record; sends after close are no-ops.
(a) correspondence of the HTTPStream / WSStream models (whose closure behaviour the theorems are
    about) with the real classes, on sequences rich in closure events;
(b) end to end: sessions on HTTP/1, HTTP/2 (several streams), WebSocket over both, on both
    flavours of the server loop, in which the connection is ended in every way the property
    lists -- client EOF after any prefix of its bytes and at any point of the application's
    progress, a failing transport write, RST_STREAM, a closing handshake from either side, server
    side close (connection: close, HTTP/1.0, request limit), the application finishing early,
    late or raising -- under fifo / lifo / random scheduling.  Observed: everything the server
    puts into each application instance's queue, the result of every send() of the application,
    and the access records per stream object."""
from __future__ import annotations

import random

from . import common as C
from . import rig as R
from . import sched as S
from . import streams as ST

PROP = "C03"
DISC = ("http.disconnect", "websocket.disconnect")


class StreamCounter:
    """Records every stream object that was handed a Request (harness-side wrapper of handle)."""

    def __init__(self):
        from hypercorn.protocol.http_stream import HTTPStream
        from hypercorn.protocol.ws_stream import WSStream

        self.classes = [HTTPStream, WSStream]
        self.saved = {}
        self.streams = []

    def __enter__(self):
        from hypercorn.protocol.events import Request

        counter = self
        for cls in self.classes:
            orig = cls.handle
            self.saved[cls] = orig

            def make(orig):
                async def handle(self_, event):
                    if isinstance(event, Request):
                        counter.streams.append(self_)
                    return await orig(self_, event)

                return handle

            cls.handle = make(orig)
        return self

    def __exit__(self, *a):
        for cls, orig in self.saved.items():
            cls.handle = orig


class AccessLog(R.RecLog):
    def __init__(self, out):
        super().__init__(out)
        self.scopes = []

    async def access(self, request, response, request_time):
        self.scopes.append(request)
        await super().access(request, response, request_time)


def http_script(rng, nchunks, crash):
    st = []
    if rng.random() < 0.5:
        st.append(("recv",))
    st.append(("send", {"type": "http.response.start", "status": 200, "headers": []}))
    for i in range(nchunks):
        st.append(("sleep", 1.0))
        if crash == i:
            st.append(rng.choice([("raise",), ("return",)]))
            return st
        st.append(("send", {"type": "http.response.body", "body": b"c%d" % i, "more_body": True}))
    st.append(("sleep", 1.0))
    st.append(("send", {"type": "http.response.body", "body": b"end", "more_body": False}))
    if rng.random() < 0.5:
        st.append(("recv_until_disconnect",))
    return st


def ws_script(rng, nmsgs, crash, closer):
    st = [("recv",)]
    if closer == "reject":
        st.append(("send", {"type": "websocket.close", "code": 1000}))
        return st
    st.append(("send", {"type": "websocket.accept"}))
    for i in range(nmsgs):
        st.append(("sleep", 1.0))
        if crash == i:
            st.append(rng.choice([("raise",), ("return",)]))
            return st
        st.append(("send", {"type": "websocket.send", "text": "m%d" % i}))
    st.append(("sleep", 1.0))
    if closer == "app":
        st.append(("send", {"type": "websocket.close", "code": 1000}))
    else:
        st.append(("recv_until_disconnect",))
        st.append(("send", {"type": "websocket.send", "text": "after-close"}))     # accepted silently
    return st


def judge(desc, rig, driver, recs, counter, log):
    fails = []
    for inst in rig.tg.apps:
        puts = inst["puts"]
        discs = [i for i, m in enumerate(puts) if m["type"] in DISC]
        if len(discs) != 1:
            fails.append({"signature": f"disconnects:{len(discs)}", "what": f"{inst['name']}: {len(discs)} disconnect messages",
                          "desc": desc, "puts": [m["type"] for m in puts]})
        elif discs[0] != len(puts) - 1:
            fails.append({"signature": "delivered-after-disconnect", "what": f"{inst['name']}: {[m['type'] for m in puts]}", "desc": desc})
    for k, rec in enumerate(recs):
        bad = [x for x in rec["sends"] if x[0] == "raise"]
        if bad:
            fails.append({"signature": "send-raised:" + str(bad[0][1]), "what": f"application {k}: send() raised {bad[:2]}", "desc": desc})
    for st in counter.streams:
        scope = getattr(st, "scope", None)
        n = sum(1 for sc in log.scopes if sc is scope) if scope is not None else 0
        if n != 1:
            fails.append({"signature": f"access-records:{n}", "what": f"{type(st).__name__} stream {st.stream_id}: {n} access records",
                          "desc": desc})
    errs = [(n, repr(e)) for n, e in driver.errors() if not n.startswith("app")]
    if errs:
        fails.append({"signature": "task-error", "what": str(errs[:2]), "desc": desc})
    for t in driver.tasks:
        if t.name.startswith("app") and not t.done and t.waiting is not None and t.waiting.label == "queue.put":
            for f in fails:
                f["signature"] = "F14:app-queue-full-deadlock"
    return fails


def drive(rig, driver, feeds, fault, rng):
    """Feed the client's byte pieces, letting virtual time pass in between; inject the fault."""
    kind, at = fault
    ticks = 0
    written_before = 0
    for piece in feeds:
        if rig.closed:
            break
        if piece is not None:
            rig.feed(piece)
        rig.run(advance_time=False)
        for _ in range(rng.choice([0, 0, 1, 2])):
            if kind == "eof-at-tick" and ticks == at:
                rig.eof()
                rig.run(advance_time=False)
                kind = None
            if driver.advance_one():
                ticks += 1
                rig.run(advance_time=False)
    # let the applications run to the end, injecting a tick-based fault on the way
    for _ in range(40):
        if kind == "eof-at-tick" and ticks >= at:
            rig.eof()
            kind = None
        if kind == "write-fails" and rig.transport.writes >= at and rig.transport.fail_after is None and not rig.transport.failed:
            rig.transport.fail_after = 0
        rig.run(advance_time=False)
        if not driver.advance_one():
            break
        ticks += 1
    rig.run()
    if not rig.closed or True:
        rig.eof()
        rig.run()


def h1_session(seed):
    rng = random.Random(seed)
    worker = rng.choice(["asyncio", "trio"])
    policy = rng.choice(["fifo", "lifo", "random"])
    nreq = rng.choice([1, 1, 2, 3])
    scripts, wire = [], b""
    for k in range(nreq):
        nchunks = rng.choice([0, 1, 3])
        crash = rng.choice([None, None, None, 0, 1]) if nchunks else None
        scripts.append(http_script(rng, nchunks, crash))
        body = rng.choice([b"", b"abc"])
        close = rng.random() < 0.15
        version = b"1.0" if rng.random() < 0.1 else b"1.1"
        wire += (b"POST /r%d HTTP/%s\r\nHost: x\r\nContent-Length: %d\r\n%s\r\n%s"
                 % (k, version, len(body), b"Connection: close\r\n" if close else b"", body))
    cut = rng.choice([None, None, rng.randrange(1, len(wire))])
    data = wire if cut is None else wire[:cut]
    pieces = []
    ncuts = rng.choice([0, 1, 3])
    cuts = sorted(set(rng.randrange(1, len(data)) for _ in range(ncuts))) if len(data) > 1 else []
    pieces = [data[a:b] for a, b in zip([0] + cuts, cuts + [len(data)])]
    fault = rng.choice([("none", 0), ("eof-at-tick", rng.randrange(0, 6)), ("eof-at-tick", 0), ("write-fails", rng.randrange(0, 6))])
    maxreq = rng.choice([None, None, 1, 2])
    desc = {"seed": seed, "carrier": "h1", "worker": worker, "policy": policy, "requests": nreq, "cut": cut, "fault": fault,
            "max_requests": maxreq}
    driver = S.Driver(seed=seed, policy=policy)
    cfg = R.make_config(())
    if maxreq:
        cfg.keep_alive_max_requests = maxreq
    log = AccessLog([])
    cfg._log = log
    recs = []
    with StreamCounter() as counter:
        rig = S.ProtoRig(S.scripted_app(scripts, recs, driver), cfg, driver, worker=worker)
        drive(rig, driver, pieces, fault, rng)
    return desc, judge(desc, rig, driver, recs, counter, log)


def ws_session(seed):
    from wsproto.events import CloseConnection, Ping, TextMessage

    from . import wsrig as W

    rng = random.Random(seed)
    carrier = rng.choice(["h11", "h2"])
    nmsgs = rng.choice([0, 1, 3])
    crash = rng.choice([None, None, None, 0, 1]) if nmsgs else None
    closer = rng.choice(["app", "client", "client", "reject", "eof", "break", "break", "early-data"])
    worker = rng.choice(["asyncio", "trio"])
    script = ws_script(rng, nmsgs, crash, "eof" if closer == "break" else closer)
    if closer == "early-data":
        # the client does not wait for the handshake: its first frame arrives while the application has not accepted yet
        script = [("recv",), ("sleep", 2.0), ("send", {"type": "websocket.accept"}), ("recv_until_disconnect",)]
    desc = {"seed": seed, "carrier": "ws-" + carrier, "closer": closer, "crash": crash, "msgs": nmsgs, "worker": worker}
    log = AccessLog([])
    with StreamCounter() as counter:
        ws = W.WsSession(carrier, script, policy=rng.choice(["fifo", "random", "lifo"]), seed=seed, worker=worker)
        ws.rig.config._log = log
        driver = ws.driver
        if closer == "early-data":
            from wsproto.connection import Connection, ConnectionType

            if carrier == "h11":
                ws.rig.feed(ws.raw_request)
            else:
                ws.h2c.send_headers(1, ws.request_headers, end_stream=False)
                ws.rig.feed(ws.h2c.data_to_send())
            ws.rig.run(advance_time=False)          # the application is started and sleeps before accepting
            ws.send_raw(Connection(ConnectionType.CLIENT).send(TextMessage(data="early")))
            ws.pump()
        else:
            ws.open()
        ticks = rng.choice([0, 1, 2, 4])
        for _ in range(ticks):
            ws.rig.run(advance_time=False)
            if not driver.advance_one():
                break
        ws.rig.run(advance_time=False)
        ws.pump()
        if closer == "client" and ws.handshake and ws.handshake[0] == "accept":
            try:
                ws.send_event(rng.choice([TextMessage(data="hi"), Ping(payload=b"p")]))
                ws.send_event(CloseConnection(code=1000))
            except Exception:  # noqa: BLE001
                pass
        elif closer == "eof":
            ws.eof()
        elif closer == "break":
            # the transport breaks: the application's next write fails, and the reader learns of it at the same time or
            # a little later - both paths tell the stream that it is closed
            ws.rig.transport.fail_after = rng.choice([0, 0, 1])
            if rng.random() < 0.7:
                ws.eof()
        for _ in range(12):
            ws.rig.run(advance_time=False)
            if not driver.advance_one():
                break
        ws.rig.run()
        ws.pump()
        ws.eof()
        ws.rig.run()
    return desc, judge(desc, ws.rig, driver, ws.records, counter, log)


def h2_session(seed):
    import h2.settings

    from . import h2rig as H2
    from . import h2send as HS

    rng = random.Random(seed)
    n = rng.choice([1, 2, 3])
    scripts = {}
    for i in range(n):
        nchunks = rng.choice([0, 1, 3])
        crash = rng.choice([None, None, None, 0, 1]) if nchunks else None
        scripts[f"/s{1 + 2 * i}"] = http_script(rng, nchunks, crash)
    recs_by = {}

    def make_app(session):
        async def app(scope, receive, send):
            r = recs_by.setdefault(scope["path"], [])
            await S.scripted_app([scripts[scope["path"]]], r, session.driver)(scope, receive, send)

        return app

    HS.tolerate_empty_data_at_negative_window()
    fault = rng.choice(["none", "reset", "eof", "write-fails", "goaway"])
    desc = {"seed": seed, "carrier": "h2", "streams": n, "fault": fault}
    log = AccessLog([])
    with StreamCounter() as counter:
        sess = H2.H2Session([], policy=rng.choice(["fifo", "random", "lifo"]), seed=seed, app=make_app, worker=rng.choice(["asyncio", "trio"]))
        sess.cfg._log = log
        driver = sess.driver

        def pump_no_time():
            out = sess.client.data_to_send()
            if out:
                sess.rig.feed(out)
            sess.rig.run(advance_time=False)
            w = sess.rig.transport.written
            data = bytes(w[sess.consumed:])
            sess.consumed = len(w)
            try:
                for ev in sess.client.receive_data(data):
                    import h2.events

                    if isinstance(ev, h2.events.DataReceived):
                        sess.client.acknowledge_received_data(ev.flow_controlled_length, ev.stream_id)
            except Exception:  # noqa: BLE001
                pass

        # sometimes every request arrives in one read, and the very first writes fail: streams are then still being created
        # (later frames of the same read) after the connection has been told once that it is closed
        batch = rng.random() < 0.35
        if batch and fault == "write-fails":
            sess.rig.transport.fail_after = rng.choice([0, 1, 2])
        for i in range(n):
            sid = 1 + 2 * i
            sess.client.send_headers(sid, [(b":method", b"POST"), (b":path", b"/s%d" % sid), (b":scheme", b"https"), (b":authority", b"x")])
            sess.client.send_data(sid, b"abc", end_stream=True)
            if not batch:
                pump_no_time()
        if batch:
            pump_no_time()
        at = rng.randrange(0, 6)
        for tick in range(12):
            if tick == at:
                try:
                    if fault == "reset":
                        sess.client.reset_stream(1 + 2 * rng.randrange(n))
                    elif fault == "eof":
                        sess.rig.eof()
                    elif fault == "write-fails":
                        sess.rig.transport.fail_after = 0
                    elif fault == "goaway":
                        sess.client.close_connection()
                except Exception:  # noqa: BLE001
                    pass
            pump_no_time()
            if not driver.advance_one():
                break
        pump_no_time()
        sess.rig.run()
        sess.rig.eof()
        sess.rig.run()
    recs = [r[0] for r in recs_by.values() if r]
    return desc, judge(desc, sess.rig, driver, recs, counter, log)


def server_close_midresponse_case(seed):
    """Both real TCPServer classes: the application streams its response before the chunked request body is complete, the
    client then sends what is not a chunk, the server gives the connection up and closes it; the application, busy elsewhere,
    goes on sending.  Those sends are accepted silently, one disconnect, one access record."""
    from . import c16
    from . import rworker as W

    rng = random.Random(seed)
    garbage = rng.choice([b"zz\r\nnot a chunk\r\n", b"-1\r\n", b"5\r\nab"])
    later = rng.choice([1, 2, 3])
    steps = [("send", {"type": "http.response.start", "status": 200, "headers": []}),
             ("send", {"type": "http.response.body", "body": b"first", "more_body": True}), ("sleep", 2.0)]
    for i in range(later):
        steps.append(("send", {"type": "http.response.body", "body": b"more%d" % i, "more_body": i < later - 1}))
    steps.append(("recv_all",))
    script = [("send", b"POST /u HTTP/1.1\r\nHost: x\r\nTransfer-Encoding: chunked\r\n\r\n3\r\nabc\r\n"), ("sleep", 0.5),
              ("send", garbage), ("sleep", 4.0)]
    desc = {"seed": seed, "carrier": "h1", "fault": "server-close-mid-response", "garbage": repr(garbage), "later_sends": later}
    fails = []
    for backend, run in (("asyncio", W.run_asyncio), ("trio", W.run_trio)):
        cfg = R.make_config(())
        logged = []
        cfg._log = R.RecLog(logged)
        cfg.keep_alive_timeout = 30.0
        res = run(c16.scripted([steps]), cfg, script, tail=60.0)
        apps = res["app"]
        if not apps:
            fails.append({"signature": "no-application", "backend": backend, "desc": desc})
            continue
        sends = apps[0]["sends"]
        if any(x != "ok" for x in sends):
            fails.append({"signature": "send-raised:" + str(next(x for x in sends if x != "ok")), "what": f"{backend}: send() results {sends}", "desc": desc})
        discs = [m["type"] for m in apps[0]["received"] if m["type"] == "http.disconnect"]
        if len(discs) != 1:
            fails.append({"signature": f"disconnects:{len(discs)}", "what": f"{backend}: received {[m['type'] for m in apps[0]['received']]}", "desc": desc})
        n_access = sum(1 for x in logged if x[0] == "log.access")
        if n_access != 1:
            fails.append({"signature": f"access-records:{n_access}", "what": f"{backend}: {n_access} access records", "desc": desc})
        if res["handler_error"] is not None or res["handler_done"] is None:
            fails.append({"signature": "handler-error", "what": f"{backend}: {res['handler_error']}", "desc": desc})
    return desc, fails


def connection_lost_case(seed):
    """Both real TCPServer classes: the application is idle in receive() (a long poll, an open WebSocket) when the
    connection ends by a reset, a plain EOF, or the read timeout.  One disconnect, nothing after it, one access record for
    the HTTP request, and the handler finishes."""
    from . import c16
    from . import rworker as W

    rng = random.Random(seed)
    how = rng.choice(["reset", "eof", "read-timeout"])
    kind = rng.choice(["http", "http", "ws"])
    if kind == "http":
        opening = b"GET /poll HTTP/1.1\r\nHost: x\r\n\r\n"
        steps = [("recv",), ("recv",), ("sleep", 0.5)]
        disc = "http.disconnect"
    else:
        opening = (b"GET /ws HTTP/1.1\r\nHost: x\r\nUpgrade: websocket\r\nConnection: Upgrade\r\n"
                   b"Sec-WebSocket-Key: dGhlIHNhbXBsZSBub25jZQ==\r\nSec-WebSocket-Version: 13\r\n\r\n")
        steps = [("recv",), ("send", {"type": "websocket.accept"}), ("recv",), ("sleep", 0.5)]
        disc = "websocket.disconnect"
    script = [("send", opening), ("sleep", 1.0)] + {"reset": [("reset",)], "eof": [("eof",)], "read-timeout": [("sleep", 3.0)]}[how] + [("sleep", 2.0)]
    desc = {"seed": seed, "carrier": "h1" if kind == "http" else "ws", "fault": "connection-lost:" + how}
    fails = []
    for backend, run in (("asyncio", W.run_asyncio), ("trio", W.run_trio)):
        cfg = R.make_config(())
        logged = []
        cfg._log = R.RecLog(logged)
        cfg.keep_alive_timeout = 30.0
        if how == "read-timeout":
            cfg.read_timeout = 2
        res = run(c16.scripted([steps]), cfg, script, tail=20.0)
        apps = res["app"]
        if not apps:
            fails.append({"signature": "no-application", "backend": backend, "desc": desc})
            continue
        got = [m["type"] for m in apps[0]["received"]]
        if got.count(disc) != 1 or got[-1] != disc:
            fails.append({"signature": f"disconnects:{got.count(disc)}", "what": f"{backend}: received {got}", "desc": desc})
        n_access = sum(1 for x in logged if x[0] == "log.access")
        if n_access != 1:
            fails.append({"signature": f"access-records:{n_access}", "what": f"{backend}: {n_access} access records", "desc": desc})
        if res["handler_error"] is not None or res["handler_done"] is None or res["leftovers"]:
            fails.append({"signature": "handler-not-finished", "what": f"{backend}: {res['handler_error']} {res['leftovers']}", "desc": desc})
    return desc, fails


def run(ctx):
    rng = ctx.rng
    cases, metas = [], []
    for _ in range(ctx.scale(250, 2500, 800)):
        c = ST.http_case(rng)
        # closure-rich: sprinkle StreamClosed events
        obs = ST.run_http_case(*c)
        cases.append((ST.http_case_term(*c), C.V(obs)))
        metas.append({"kind": "http-stream", "inputs": c[4], "obs": obs})
    for _ in range(ctx.scale(250, 2500, 800)):
        c = ST.ws_case(rng)
        obs = ST.run_ws_case(c[0], c[1], c[2], c[3], c[5], list(c[6]), list(c[7]), c[8], c[9])
        cases.append((ST.ws_case_term(*c), C.V(obs)))
        metas.append({"kind": "ws-stream", "inputs": c[9], "obs": obs})
    disagreements, err = [], None
    if ctx.mode != "search":
        failing, err = C.coq_failing(PROP, ST.PREAMBLE, ST.INPUT_TY, ST.FUN, cases)
        for k in failing[:4]:
            disagreements.append({"case": metas[k], "model": C.coq_show(PROP, ST.PREAMBLE, ST.FUN, cases[k][0])[-1200:]})
        disagreements.extend({"case": metas[k]} for k in failing[4:30])
    oracle_failures, descs = [], []
    for fn, count in ((h1_session, ctx.scale(800, 8000, 2500)), (ws_session, ctx.scale(600, 4000, 1200)),
                      (h2_session, ctx.scale(500, 4000, 1200)), (server_close_midresponse_case, ctx.scale(6, 60, 20)),
                      (connection_lost_case, ctx.scale(24, 200, 60))):
        for i in range(count):
            d, f = fn(ctx.seed * 32452843 + i)
            descs.append(d)
            oracle_failures.extend(f)
    dist = {"stream_cases": len(cases), "sessions": len(descs)}
    for d in descs:
        k = f"{d['carrier']}:{d.get('fault', d.get('closer'))}"
        if isinstance(d.get("fault"), tuple):
            k = f"{d['carrier']}:{d['fault'][0]}"
        dist[k] = dist.get(k, 0) + 1
    return {
        "evaluations": len(cases) + len(descs),
        "distinct_nontrivial": len({repr(m["obs"]) for m in metas}) + len({repr(sorted((k, str(v)) for k, v in d.items())) for d in descs}),
        "rule": "stream sequences against the HTTPStream / WSStream models; closure sessions: HTTP/1 pipelines (1-3 requests, bodies, "
                "connection: close, HTTP/1.0, request limits) cut at any byte and in up to 4 reads, with client EOF at any of the first "
                "6 ticks of the applications' progress or a failing write at any of the first 6 writes; WebSocket over HTTP/1 and "
                "HTTP/2 with the closing handshake started by the application, the client, a rejected handshake, or EOF; HTTP/2 with "
                "1-3 streams and RST_STREAM / EOF / failing write / GOAWAY at any tick; applications that finish, raise or return "
                "mid-response and go on sending after closure; asyncio and trio flavours of the server loop; fifo / lifo / random.",
        "samples": descs[:2] + descs[-1:],
        "disagreements": disagreements,
        "oracle_failures": oracle_failures,
        "model_eval_error": err,
        "distribution": dist,
        "assumptions": ["the access logger is called once per access record", "the rig's server loop mirrors both TCPServer classes"],
    }


def f31_no_access_record():
    """F31 seen from C03: http.response.trailers before the response start on HTTP/2 ends the stream without a response
    head, and the request never gets an access record."""
    from . import h2rig as H2

    log = AccessLog([])
    sess = H2.H2Session([[("send", {"type": "http.response.trailers", "headers": [], "more_trailers": False}), ("return",)]])
    sess.cfg._log = log
    sess.request(1)
    sess.pump()
    sess.eof()
    n = len(log.scopes)
    return f"{n} access records for the request (END_STREAM x{sess.ended.get(1, 0)}, response heads: {len(sess.headers.get(1, []))})" if n != 1 else None


def known_still_fails(k):
    if k.get("id") == "F31":
        try:
            return f31_no_access_record()
        except Exception:  # noqa: BLE001
            return None
    if k.get("signature") == "F14:app-queue-full-deadlock":
        from .c06 import f14_witness

        return f14_witness()
    return None


def replay(data):
    print(data)
    return 0
