"""Shared body of the HTTP/1-centred checks (C01, C02, C05, C06, C18): H11Proto model
correspondence (protocol rig with library proxies), stream-level correspondence, and end-to-end
sessions with the property's oracles."""
from __future__ import annotations

from . import common as C
from . import h11gen as G
from . import h11rig as H
from . import http1e2e as E
from . import streams as ST

ORACLES = {"c01": E.oracle_c01, "c02": E.oracle_c02, "c05": E.oracle_c05, "c06": E.oracle_c06, "c18": E.oracle_c18}


def model_sessions(ctx, n):
    rng = ctx.rng
    cases, metas = [], []
    for _ in range(n):
        rig, names, maxreq = G.run_session(rng, H.H11Rig)
        term, obs = rig.coq_case(names, False, maxreq)
        cases.append((term, C.V(obs)))
        metas.append({"kind": "h11-protocol", "steps": [(str(d)[:200], e) for d, e, _ in rig.steps], "obs": obs})
    return cases, metas


def stream_sessions(ctx, n):
    rng = ctx.rng
    cases, metas = [], []
    for _ in range(n):
        c = ST.http_case(rng)
        obs = ST.run_http_case(*c)
        cases.append((ST.http_case_term(*c), C.V(obs)))
        metas.append({"kind": "http-stream", "inputs": c[4], "obs": obs})
    return cases, metas


def e2e_sessions(ctx, n, prop, oracle_names, session_kw):
    rng = ctx.rng
    out, fails = [], []
    for i in range(n):
        kw = session_kw(rng, i)
        s = E.Session(rng, **kw)
        s.run()
        d = s.describe()
        out.append(d)
        dead = E.deadlocked_on_own_queue(s)
        for name in oracle_names:
            for what, sig in ORACLES[name](s):
                fails.append({"case": d, "what": what, "signature": "F14:app-queue-full-deadlock" if dead else sig})
        errs = [(nm, repr(e)) for nm, e in s.driver.errors() if not nm.startswith("app")]
        if errs:
            fails.append({"case": d, "what": f"task errors {errs}", "signature": "e2e:task-error"})
    return out, fails


def h2_extra(oracle_names, counts, crashes=True):
    """HTTP/2 half of the end-to-end oracles: concurrent streams through the real stack, an independent h2 client."""
    import random

    from . import h2e2e as E2

    orc = {"c01": E2.oracle_c01, "c02": E2.oracle_c02, "c05": E2.oracle_c05}

    def extra(ctx):
        fails, dist = [], {"h2_sessions": 0, "h2_streams": 0, "h2_crashing_plans": 0}
        n = ctx.scale(*counts)
        for i in range(n):
            seed = ctx.seed * 1299709 + i
            rng = random.Random(seed)
            s = E2.Session2(rng, policy=rng.choice(["fifo", "random", "lifo"]), seed=seed, crashes=crashes)
            s.run()
            d = s.describe()
            dist["h2_sessions"] += 1
            dist["h2_streams"] += len(s.reqs)
            dist["h2_crashing_plans"] += sum(1 for p in s.plans.values() if p.crash)
            for name in oracle_names:
                for what, sig in orc[name](s):
                    fails.append({"case": {"seed": seed, "h2": d}, "what": what, "signature": sig})
            errs = [(nm, e) for nm, e in s.sess.errors() if not nm.startswith("app")]
            if errs:
                fails.append({"case": {"seed": seed, "h2": d}, "what": f"task errors {errs}", "signature": "h2e2e:task-error"})
        if "c02" in oracle_names and oracle_names[0] == "c02":
            for i in range(ctx.scale(12, 150, 40)):
                d, f = E2.trailers_case(ctx.seed * 6133 + i)
                n += 1
                dist["h2_trailers"] = dist.get("h2_trailers", 0) + 1
                for what, sig in f:
                    fails.append({"case": d, "what": what, "signature": sig})
        if "c01" in oracle_names:
            for i in range(ctx.scale(3, 30, 10)):
                d, f = E2.padded_upload(ctx.seed * 7477 + i)
                n += 1
                dist["h2_padded_uploads"] = dist.get("h2_padded_uploads", 0) + 1
                for what, sig in f:
                    fails.append({"case": d, "what": what, "signature": sig})
        return {"failures": fails, "count": n, "dist": dist}

    return extra


def run_common(ctx, prop, oracle_names, n_model, n_stream, n_e2e, session_kw, rule, extra=None):
    mc, mm = model_sessions(ctx, ctx.scale(*n_model))
    sc, sm = stream_sessions(ctx, ctx.scale(*n_stream)) if n_stream else ([], [])
    e2e, oracle_failures = e2e_sessions(ctx, ctx.scale(*n_e2e), prop, oracle_names, session_kw)
    extra_res = extra(ctx) if extra else {"failures": [], "count": 0, "dist": {}}
    oracle_failures.extend(extra_res["failures"])
    disagreements, err = [], None
    if ctx.mode != "search":
        failing, err = C.coq_failing(prop + "_h11", H.PREAMBLE, H.INPUT_TY, H.FUN, mc)
        for k in failing[:4]:
            shown = C.coq_show(prop + "_h11", H.PREAMBLE, H.FUN, mc[k][0])
            try:
                d = C.first_diff(C.canon(mm[k]["obs"]), C.parse_val(shown))
            except Exception:  # noqa: BLE001
                d = None
            disagreements.append({"case": mm[k], "first_difference": repr(d)[:1500]})
        disagreements.extend({"case": mm[k]} for k in failing[4:30])
        if sc:
            failing2, err2 = C.coq_failing(prop + "_stream", ST.PREAMBLE, ST.INPUT_TY, ST.FUN, sc)
            err = err or err2
            for k in failing2[:4]:
                disagreements.append({"case": sm[k], "model": C.coq_show(prop + "_stream", ST.PREAMBLE, ST.FUN, sc[k][0])[-1200:]})
            disagreements.extend({"case": sm[k]} for k in failing2[4:30])
    dist = {"h11_protocol_sessions": len(mc), "stream_sessions": len(sc), "e2e_sessions": len(e2e),
            "e2e_requests": sum(len(d["requests"]) for d in e2e), "e2e_instances": sum(d["instances"] for d in e2e),
            "e2e_crashing_plans": sum(1 for d in e2e for p in d["plans"] if p["crash"]),
            "e2e_pipelined": sum(1 for d in e2e if len(d["requests"]) > 1)}
    dist.update(extra_res["dist"])
    return {
        "evaluations": len(mc) + len(sc) + len(e2e) + extra_res["count"],
        "distinct_nontrivial": len({repr(m["obs"]) for m in mm}) + len({repr(m["obs"]) for m in sm})
                               + len({repr((d["requests"], d["plans"], d["responses"])) for d in e2e}),
        "rule": rule,
        "samples": [mm[0], e2e[0], e2e[-1]],
        "disagreements": disagreements,
        "oracle_failures": oracle_failures,
        "model_eval_error": err,
        "distribution": dist,
        "assumptions": ["h11's parser and serialiser are not modelled: received events and returned bytes are oracle values recorded "
                        "from the real library; h11's state machine is modelled (LibH11.v) and cross-checked after every call",
                        "the independent client is an h11 client connection"],
    }
