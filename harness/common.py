"""Shared machinery of the checks: Coq term emission, building, evaluating case files inside Coq,
assumption gate, evidence, known findings, violation reporting."""
from __future__ import annotations

import fcntl
import json
import os
import re
import subprocess
import sys
import time
from concurrent.futures import ThreadPoolExecutor
from pathlib import Path

VERIF = Path(__file__).resolve().parent.parent
REPO = Path(os.environ.get("VERIF_REPO", "/repo"))
COQ = VERIF / "coq"
CASES = COQ / "cases"
REPLAYS = VERIF / "replays"
EVIDENCE = VERIF / "evidence"
COQ_ARGS = ["-Q", str(COQ), "HV", "-w", "-notation-overridden,-deprecated-hint-without-locality,-deprecated-instance-without-locality"]
ALLOWED_AXIOMS = {
    # standard-library axioms only; listed in DESIGN.md section 9
    "functional_extensionality_dep",
    "proof_irrelevance",
    "JMeq_eq",
    "eq_rect_eq",
    "classic",
}


# ---------------------------------------------------------------------------- Coq term emission
def cZ(n: int) -> str:
    return f"({n})%Z"


def cN(n: int) -> str:
    return f"{n}%N"


def cnat(n: int) -> str:
    assert 0 <= n < 5000, n
    return f"{n}%nat"


def cbool(b: bool) -> str:
    return "true" if b else "false"


def cbytes(b) -> str:
    b = bytes(b)
    if not b:
        return "(@nil N)"
    # run-length friendly form for long uniform stretches keeps literals small
    if len(b) > 64 and len(set(b)) == 1:
        return f"(repeat {b[0]}%N (Z.to_nat {len(b)}%Z))"
    return "[" + ";".join(str(x) for x in b) + "]%N"


def cpoints(s: str) -> str:
    """Python str as list of code points."""
    if not s:
        return "(@nil N)"
    return "[" + ";".join(str(ord(c)) for c in s) + "]%N"


def cstr(s: str) -> str:
    assert all(32 <= ord(c) <= 126 for c in s), s
    return '"' + s.replace('"', '""') + '"%string'


def clist(items, ty: str | None = None) -> str:
    items = list(items)
    if not items:
        return f"(@nil {ty})" if ty else "[]"
    return "[" + "; ".join(items) + "]"


def copt(x, f) -> str:
    return "None" if x is None else f"(Some {f(x)})"


def ctuple(*xs) -> str:
    return "(" + ", ".join(xs) + ")"


def is_ident(s: str) -> bool:
    return all(32 <= ord(c) <= 126 for c in s)


def V(o) -> str:
    """Python observation -> Coq [val] term.  bool/int -> VZ, bytes -> VB, str -> VS (printable
    ASCII) or VB of code points tagged, list/tuple -> VL, None -> VL []."""
    if o is None:
        return "(VL [])"
    if isinstance(o, bool):
        return f"(VZ {1 if o else 0})"
    if isinstance(o, int):
        return f"(VZ ({o}))"
    if isinstance(o, (bytes, bytearray, memoryview)):
        return f"(VB {cbytes(bytes(o))})"
    if isinstance(o, str):
        if is_ident(o):
            return f"(VS {cstr(o)})"
        return f"(VB {cpoints(o)})"
    if isinstance(o, (list, tuple)):
        return "(VL " + clist([V(x) for x in o], "val") + ")"
    if isinstance(o, U):
        if not isinstance(o.s, str):
            # the implementation let through what is not text where only text may go: encode it so that it cannot
            # match the model's observation, and let the comparison report the case
            return f"(VL [(VS {cstr('not-text')}); {V(repr(o.s))}])"
        return f"(VB {cpoints(o.s)})"
    raise TypeError(f"cannot encode {type(o)}: {o!r}")


class U:
    """A Python str to be encoded as a list of code points (VB) even when ASCII."""

    def __init__(self, s: str) -> None:
        self.s = s

    def __repr__(self) -> str:
        return f"U({self.s!r})"


# ---------------------------------------------------------------------------- building
class Lock:
    def __enter__(self):
        self.f = open(VERIF / ".lock", "w")
        fcntl.flock(self.f, fcntl.LOCK_EX)
        return self

    def __exit__(self, *a):
        fcntl.flock(self.f, fcntl.LOCK_UN)
        self.f.close()


def run(cmd, timeout=600, cwd=None, env=None):
    try:
        p = subprocess.run(cmd, cwd=cwd, env=env, capture_output=True, text=True, timeout=timeout)
        out = "\n".join(l for l in (p.stdout + p.stderr).splitlines() if "conda.cli.condarc" not in l)
        return p.returncode, out
    except subprocess.TimeoutExpired as e:
        return 124, f"TIMEOUT after {timeout}s: {cmd}"


def translate():
    """Regenerate coq/gen/*.v from the working tree.  Returns (ok, message)."""
    rc, out = run([sys.executable, str(VERIF / "translate" / "py2coq.py"), str(REPO / "src"), str(COQ / "gen")], timeout=120)
    return rc == 0, out


def ensure_makefile():
    mk = COQ / "Makefile"
    proj = COQ / "_CoqProject"
    if not mk.exists() or mk.stat().st_mtime < proj.stat().st_mtime:
        run(["coq_makefile", "-f", "_CoqProject", "-o", "Makefile"], cwd=COQ)


def make(targets, timeout=1500, jobs=8):
    ensure_makefile()
    rc, out = run(["make", f"-j{jobs}"] + list(targets), cwd=COQ, timeout=timeout)
    return rc == 0, out


GATE_RE = re.compile(r"\b(Admitted|admit|Axiom|Axioms|Parameter|Parameters|Conjecture|Unset\s+Guard|bypass_check|type-in-type|impredicative-set|Admit\s+Obligations)\b")


def strip_comments(text: str) -> str:
    out = []
    depth = 0
    i = 0
    while i < len(text):
        if text.startswith("(*", i):
            depth += 1
            i += 2
        elif text.startswith("*)", i) and depth:
            depth -= 1
            i += 2
        else:
            if depth == 0:
                out.append(text[i])
            i += 1
    return "".join(out)


def grep_gate():
    """Reject forbidden declarations anywhere under coq/ (comments and string literals stripped)."""
    bad = []
    for p in sorted(COQ.rglob("*.v")):
        if "cases" in p.parts:
            continue
        text = strip_comments(p.read_text())
        text = re.sub(r'"[^"]*"', '""', text)
        for m in GATE_RE.finditer(text):
            bad.append(f"{p.relative_to(COQ)}: {m.group(0)}")
    return bad


def dep_cone(vfile: Path) -> list[Path]:
    """Transitive HV dependencies of a .v file (parsing Require lines)."""
    seen: dict[Path, None] = {}

    def visit(p: Path):
        if p in seen or not p.exists():
            return
        seen[p] = None
        text = strip_comments(p.read_text())
        for m in re.finditer(r"From\s+HV\s+Require\s+(?:Import\s+|Export\s+)?((?:[\w']+(?:\.[\w']+)*\s*)+)\.(?=\s|$)", text):
            for mod in m.group(1).split():
                visit(COQ / (mod.replace(".", "/") + ".v"))
        for m in re.finditer(r"Require\s+(?:Import|Export)?\s+((?:HV\.[\w.']+\s*)+)\.", text):
            for mod in m.group(1).split():
                visit(COQ / (mod[3:].replace(".", "/") + ".v"))

    visit(vfile)
    return list(seen)


OBLIG_RE = re.compile(r"^\s*(?:Local\s+|Global\s+)?(Theorem|Lemma|Corollary|Example|Fact|Proposition|Remark)\s+([\w']+)", re.M)


def count_obligations(prop: str):
    files = dep_cone(COQ / "props" / f"{prop}.v")
    names = []
    for f in files:
        for m in OBLIG_RE.finditer(strip_comments(f.read_text())):
            names.append(f"{f.relative_to(COQ)}:{m.group(2)}")
    return files, names


def count_discharged(prop: str) -> int:
    """Obligations whose file compiled on this run (.vo present and not older than the source)."""
    files = dep_cone(COQ / "props" / f"{prop}.v")
    n = 0
    for f in files:
        vo = f.with_suffix(".vo")
        if vo.exists() and vo.stat().st_mtime >= f.stat().st_mtime:
            n += len(OBLIG_RE.findall(strip_comments(f.read_text())))
    return n


def print_assumptions(prop: str):
    """Re-run coqc on props/<prop>.v and collect what Print Assumptions printed.
    Returns (ok, list of (theorem-block text), axioms found)."""
    rc, out = run(["coqc"] + COQ_ARGS + [str(COQ / "props" / f"{prop}.v")], timeout=600, cwd=COQ)
    if rc != 0:
        return False, out, []
    closed = out.count("Closed under the global context")
    axioms = []
    if "Axioms:" in out:
        for m in re.finditer(r"^([\w.']+)\s*:", out, re.M):
            axioms.append(m.group(1))
    bad = [a for a in axioms if a.split(".")[-1] not in ALLOWED_AXIOMS]
    return not bad, out, axioms


# ---------------------------------------------------------------------------- case evaluation in Coq
def coq_eval(name: str, preamble: str, body: str, timeout=900):
    """Write coq/cases/<name>.v and run coqc on it; returns (rc, output)."""
    CASES.mkdir(exist_ok=True)
    p = CASES / f"{name}.v"
    p.write_text(preamble + "\n" + body + "\n")
    rc, out = run(["bash", "-c", f"ulimit -s unlimited 2>/dev/null; exec coqc {' '.join(repr(a) for a in COQ_ARGS)} {p}"], timeout=timeout, cwd=COQ)
    for ext in (".vo", ".vok", ".vos", ".glob"):
        q = p.with_suffix(ext)
        if q.exists():
            q.unlink()
    aux = p.parent / f".{p.stem}.aux"
    if aux.exists():
        aux.unlink()
    return rc, out


def parse_N_list(out: str):
    m = re.search(r"=\s*(\[.*?\]|nil)\s*:\s*list N", out, re.S)
    if not m:
        return None
    return [int(x) for x in re.findall(r"\d+", m.group(1).replace("%N", ""))]


def coq_failing(prop: str, preamble: str, input_ty: str, fun: str, cases, shard=250, jobs=8, timeout=900):
    """cases: list of (input_term, expected_val_term).  Evaluates [failing fun cases] inside Coq
    (vm_compute) in shards; returns (failing global indices, error text or None)."""
    shards = [cases[i : i + shard] for i in range(0, len(cases), shard)]

    def one(k):
        body = [f"Definition cases : list (({input_ty}) * val) := ["]
        body.append(";\n".join(f"  ({i}, {e})" for i, e in shards[k]))
        body.append("].")
        body.append(f"Eval vm_compute in (failing ({fun}) cases).")
        rc, out = coq_eval(f"{prop}_cases_{k}", preamble, "\n".join(body), timeout=timeout)
        if rc != 0:
            return k, None, out
        idx = parse_N_list(out)
        if idx is None:
            return k, None, "unparsable coqc output: " + out[-2000:]
        return k, idx, None

    failing = []
    err = None
    with ThreadPoolExecutor(max_workers=jobs) as ex:
        for k, idx, e in ex.map(one, range(len(shards))):
            if e is not None:
                err = e
                continue
            failing.extend(k * shard + i for i in idx)
    return sorted(failing), err


def coq_show(prop: str, preamble: str, fun: str, input_term: str) -> str:
    rc, out = coq_eval(f"{prop}_show", preamble, f"Eval vm_compute in (({fun}) ({input_term})).")
    return out


# ---------------------------------------------------------------------------- known findings
def load_known(prop: str):
    p = VERIF / "known_findings.json"
    if not p.exists():
        return []
    data = json.loads(p.read_text())
    return [f for f in data.get("findings", []) if f.get("property") == prop or prop in f.get("properties", [])]


# ---------------------------------------------------------------------------- evidence and reporting
def write_replay(prop: str, name: str, obj) -> Path:
    REPLAYS.mkdir(exist_ok=True)
    p = REPLAYS / f"{prop}_{name}.json"
    p.write_text(json.dumps(obj, indent=1, default=repr))
    return p


def violation(prop: str, replay: Path, no_input: bool = False):
    line = f"VIOLATION property={prop} replay={replay}"
    if no_input:
        line += " no-failing-input-found"
    print(line, flush=True)


def write_evidence(prop: str, tier: str, seed: int, coverage: dict, assumptions, wall: float, violations: int):
    EVIDENCE.mkdir(exist_ok=True)
    ev = {
        "property_id": prop,
        "tier": tier if tier in ("quick", "thorough") else "quick",
        "seed": seed,
        "level": "proof",
        "coverage": coverage,
        "assumptions": assumptions,
        "wall_s": round(wall, 2),
        "violations": violations,
    }
    (EVIDENCE / f"{prop}.json").write_text(json.dumps(ev, indent=1, default=repr))


# ---------------------------------------------------------------------------- reading a val back (debugging aid)
def parse_val(text: str):
    """Parse the `= VL [...] : val` printed by coq_show into nested Python lists
    (VZ -> int, VB -> bytes, VS -> str, VL -> list)."""
    m = re.search(r"=\s*(.*?):\s*val\s*$", text, re.S)
    src = m.group(1) if m else text
    src = re.sub(r"%(string|nat|N|Z)\b", "", src)
    toks = re.findall(r'"(?:[^"]|"")*"|\[|\]|;|\(|\)|-?\d+|[A-Za-z_]+', src)
    pos = 0

    def parse():
        nonlocal pos
        t = toks[pos]
        if t == "(":
            pos += 1
            v = parse()
            assert toks[pos] == ")"
            pos += 1
            return v
        if t in ("VZ", "VB", "VS", "VL"):
            pos += 1
            arg = parse()
            if t == "VB":
                return bytes(arg) if all(0 <= x < 256 for x in arg) else ("points", arg)
            return arg
        if t == "[":
            pos += 1
            items = []
            while toks[pos] != "]":
                items.append(parse())
                if toks[pos] == ";":
                    pos += 1
            pos += 1
            return items
        if t == "nil":
            pos += 1
            return []
        if t.startswith('"'):
            pos += 1
            return t[1:-1].replace('""', '"')
        pos += 1
        return int(t)

    return parse()


def canon(o):
    """Python observation in the same shape parse_val produces."""
    if o is None:
        return []
    if isinstance(o, bool):
        return 1 if o else 0
    if isinstance(o, int):
        return o
    if isinstance(o, (bytes, bytearray)):
        return bytes(o)
    if isinstance(o, str):
        return o if is_ident(o) else ("points", [ord(c) for c in o])
    if isinstance(o, U):
        pts = [ord(c) for c in o.s]
        return bytes(pts) if all(p < 256 for p in pts) else ("points", pts)
    return [canon(x) for x in o]


def first_diff(a, b, path=()):
    """Path and values of the first difference between two canonical observations."""
    if isinstance(a, list) and isinstance(b, list):
        for i, (x, y) in enumerate(zip(a, b)):
            d = first_diff(x, y, path + (i,))
            if d:
                return d
        if len(a) != len(b):
            return (path, f"length {len(a)} vs {len(b)}", a[len(b):][:2] if len(a) > len(b) else b[len(a):][:2])
        return None
    if a != b:
        return (path, a, b)
    return None
