"""C16: protocol behaviour does not depend on the worker class.
(a) the two real EventWrapper classes against model.EventSem on random operation sequences
    (disciplined and not), each in its own event loop;
(b) differential execution: the same timed client script and application behaviour on the real
    asyncio and trio TCPServer (with their TaskGroup, WorkerContext, SingleTask, EventWrapper)
    under virtual time; compared: what every application instance received and how its sends
    ended, what the client received and when (date header aside), when the server closed, when
    the handler finished and what it left behind."""
from __future__ import annotations

import random
import re

from . import common as C
from . import rig as R
from . import rworker as W

PROP = "C16"

EV_PREAMBLE = ("From Coq Require Import ZArith List.\nFrom HV Require Import lib.Obs model.EventSem.\nImport ListNotations.\nOpen Scope Z_scope.\n"
               "Definition vw (l : list (list Z)) : val := VL (map (fun w => VL (map VZ w)) l).\n"
               "Definition run_events (c : bool * list eop) : val := if fst c then vw (arun a0 (snd c)) else vw (EventSem.trun EventSem.t0 (snd c)).\n")


# ------------------------------------------------------------------ (a) events
def gen_ops(rng, disciplined):
    ops, waiting, flag, nxt = [], 0, False, 1
    for _ in range(rng.randint(1, 12)):
        k = rng.choice(["wait", "wait", "set", "clear"])
        if k == "clear" and disciplined and waiting:
            k = "set"
        if k == "wait":
            ops.append(("wait", nxt))
            nxt += 1
            if not flag:
                waiting += 1
        elif k == "set":
            ops.append(("set",))
            flag, waiting = True, 0
        else:
            ops.append(("clear",))
            flag = False
    return ops


def run_events_asyncio(ops):
    import asyncio

    from hypercorn.asyncio.worker_context import EventWrapper

    async def main():
        ev = EventWrapper()
        woken, out, tasks = [], [], []

        async def waiter(t):
            await ev.wait()
            woken.append(t)

        for op in ops:
            if op[0] == "wait":
                tasks.append(asyncio.ensure_future(waiter(op[1])))
            elif op[0] == "set":
                await ev.set()
            else:
                await ev.clear()
            for _ in range(3):
                await asyncio.sleep(0)
            out.append(sorted(woken))
            woken.clear()
        for t in tasks:
            t.cancel()
        return out

    return asyncio.run(main())


def run_events_trio(ops):
    import trio
    import trio.testing

    from hypercorn.trio.worker_context import EventWrapper

    async def main():
        ev = EventWrapper()
        woken, out = [], []

        async def waiter(t):
            await ev.wait()
            woken.append(t)

        async with trio.open_nursery() as n:
            for op in ops:
                if op[0] == "wait":
                    n.start_soon(waiter, op[1])
                elif op[0] == "set":
                    await ev.set()
                else:
                    await ev.clear()
                await trio.testing.wait_all_tasks_blocked()
                out.append(sorted(woken))
                woken.clear()
            n.cancel_scope.cancel()
        return out

    return trio.run(main)


def ops_term(ops):
    return "[" + "; ".join({"wait": lambda o: f"OWait {o[1]}", "set": lambda o: "OSet", "clear": lambda o: "OClear"}[o[0]](o) for o in ops) + "]"


# ------------------------------------------------------------------ (b) sessions
def scripted(plan):
    """plan: per instance, list of steps: ("recv",) ("recv_all",) ("sleep", s) ("send", msg) ("raise",) ("return",)"""

    async def app(scope, receive, send, sleep, records, now):
        k = len(records)
        rec = {"scope": {x: scope.get(x) for x in ("type", "http_version", "method", "path", "raw_path", "query_string", "headers", "scheme",
                                                   "subprotocols")},
               "received": [], "sends": [], "start": now()}
        records.append(rec)
        steps = plan[k] if k < len(plan) else [("recv_all",)]
        try:
            for st in steps:
                if st[0] == "recv":
                    rec["received"].append(await receive())
                elif st[0] == "recv_all":
                    while True:
                        m = await receive()
                        rec["received"].append(m)
                        if m["type"] in ("http.disconnect", "websocket.disconnect") or (m["type"] == "http.request" and not m.get("more_body")):
                            break
                elif st[0] == "sleep":
                    await sleep(st[1])
                elif st[0] == "send":
                    try:
                        await send(st[1])
                        rec["sends"].append("ok")
                    except Exception as e:  # noqa: BLE001
                        rec["sends"].append(type(e).__name__)
                elif st[0] == "raise":
                    raise RuntimeError("app")
                elif st[0] == "raise-cancelled":
                    # the application lets a CancelledError of its own making escape (a helper task it awaited was cancelled):
                    # to the server it is an application that ended without completing its response
                    import sniffio

                    if sniffio.current_async_library() == "trio":
                        raise RuntimeError("app")       # trio's Cancelled cannot be made by hand
                    import asyncio

                    raise asyncio.CancelledError()
                elif st[0] == "raise-nested":
                    # the failure comes out of a child task of the application's own task group (anyio style): the server
                    # sees an exception group
                    import sniffio

                    async def child():
                        raise RuntimeError("app child")

                    if sniffio.current_async_library() == "trio":
                        import trio

                        async with trio.open_nursery() as nursery:
                            nursery.start_soon(child)
                    else:
                        import asyncio

                        async with asyncio.TaskGroup() as tg:
                            tg.create_task(child())
                elif st[0] == "return":
                    return
        finally:
            rec["end"] = now()

    return app


def gen_h1(rng):
    n = rng.choice([1, 2, 3])
    script, plan = [], []
    closing = []
    eof_mid_request = rng.random() < 0.25        # EOF / half-close at any point of the last request
    for k in range(n):
        body = rng.choice([b"", b"abc", b"x" * 3000])
        chunked = rng.random() < 0.3 and body
        hdr = b"Transfer-Encoding: chunked\r\n" if chunked else (b"Content-Length: %d\r\n" % len(body) if body else b"")
        extra = rng.choice([b"", b"", b"Connection: close\r\n", b"Expect: 100-continue\r\n" if body else b""])
        wire = b"%s /r%d?k=%d HTTP/1.%s\r\nHost: example.com\r\n%s%s\r\n" % (rng.choice([b"GET", b"POST", b"HEAD"]), k, k,
                                                                             rng.choice([b"1", b"1", b"0"]), hdr, extra)
        wire += (b"%x\r\n%s\r\n0\r\n\r\n" % (len(body), body)) if chunked else body
        closing.append(b"Connection: close" in wire or b" HTTP/1.0\r\n" in wire)
        if rng.random() < 0.15 or (eof_mid_request and k == n - 1):
            wire = wire[:rng.randrange(1, len(wire))]          # cut short
        if rng.random() < 0.1:
            wire = b"GET /bad HTTP/1.1\r\nBad Header\r\n\r\n"
        cuts = sorted(set(rng.randrange(1, len(wire)) for _ in range(rng.choice([0, 0, 1, 3])))) if len(wire) > 1 else []
        for a, b in zip([0] + cuts, cuts + [len(wire)]):
            script.append(("send", wire[a:b]))
            if rng.random() < 0.3:
                script.append(("sleep", rng.choice([0.31, 1.93])))
        if rng.random() < 0.4:
            script.append(("sleep", rng.choice([0.47, 2.9, 7.3])))
        steps = [rng.choice([("recv_all",), ("recv",), ("sleep", 0.0)])]
        if rng.random() < 0.5:
            steps.append(("sleep", rng.choice([0.53, 1.57, 6.13])))
        crash = rng.choice([None, None, None, "raise", "return"])
        if crash == "raise" and rng.random() < 0.5:
            steps.append(rng.choice([("raise",), ("raise-nested",)]))
        else:
            steps.append(("send", {"type": "http.response.start", "status": rng.choice([200, 204, 404]), "headers": [(b"x-k", b"%d" % k)]}))
            nb = rng.choice([0, 1, 3])
            for i in range(nb):
                if crash and i == 1:
                    steps.append((crash,))
                    break
                steps.append(("send", {"type": "http.response.body", "body": b"part%d" % i, "more_body": True}))
                if rng.random() < 0.3:
                    steps.append(("sleep", 0.59))
            else:
                steps.append(("send", {"type": "http.response.body", "body": b"end", "more_body": False}))
        plan.append(steps)
    end = "eof" if eof_mid_request else rng.choice(["none", "eof", "reset", "none"])
    if end != "none":
        script.append(("sleep", rng.choice([0.0, 0.23, 4.1])))
        script.append((end,))
    gen_h1.closing_not_last = any(closing[:-1])
    return script, plan, None


def gen_ws(rng):
    from wsproto.connection import Connection, ConnectionType
    from wsproto.events import BytesMessage, CloseConnection, Ping, TextMessage

    c = Connection(ConnectionType.CLIENT)
    script = [("send", b"GET /chat HTTP/1.1\r\nHost: x\r\nUpgrade: websocket\r\nConnection: Upgrade\r\n"
                       b"Sec-WebSocket-Key: dGhlIHNhbXBsZSBub25jZQ==\r\nSec-WebSocket-Version: 13\r\n\r\n")]
    for _ in range(rng.choice([0, 1, 3])):
        script.append(("sleep", rng.choice([0.11, 1.03, 8.3])))
        script.append(("send", c.send(rng.choice([TextMessage(data="hello"), BytesMessage(data=b"\x01\x02"), Ping(payload=b"p")]))))
    tail = rng.choice(["close", "eof", "none"])
    if tail == "close":
        script.append(("send", c.send(CloseConnection(code=1000))))
    elif tail == "eof":
        script.append(("eof",))
    steps = [("recv",), ("send", {"type": "websocket.accept"})]
    for i in range(rng.choice([0, 2])):
        steps.append(("send", {"type": "websocket.send", "text": "s%d" % i}))
    steps.append(("recv_all",)) if rng.random() < 0.7 else steps.append(("send", {"type": "websocket.close", "code": 1001}))
    steps += [("recv",), ("recv",)]
    return script, [steps], None


def gen_h2(rng):
    import h2.config
    import h2.connection

    c = h2.connection.H2Connection(h2.config.H2Configuration(client_side=True, header_encoding=None))
    small_window = rng.random() < 0.3
    if small_window:
        # a client window that the larger bodies do not fit in: the application is held in send() until the end
        import h2.settings

        c.local_settings = h2.settings.Settings(client=True, initial_values={h2.settings.SettingCodes.INITIAL_WINDOW_SIZE: rng.choice([100, 1000])})
    c.initiate_connection()
    script = [("send", c.data_to_send())]
    plan = []
    n = rng.choice([1, 2, 3])
    for i in range(n):
        sid = 1 + 2 * i
        body = rng.choice([b"", b"abc"])
        c.send_headers(sid, [(b":method", b"POST" if body else b"GET"), (b":path", b"/s%d" % sid), (b":scheme", b"https"),
                             (b":authority", b"x")], end_stream=not body)
        if body:
            c.send_data(sid, body, end_stream=True)
        script.append(("send", c.data_to_send()))
        if rng.random() < 0.4:
            script.append(("sleep", rng.choice([0.31, 1.93])))
        steps = [("recv_all",)]
        if rng.random() < 0.5:
            steps.append(("sleep", rng.choice([0.53, 3.07])))
        steps.append(("send", {"type": "http.response.start", "status": 200, "headers": [(b"x-s", b"%d" % sid)]}))
        if rng.random() < 0.2 and not (small_window and i == 0):
            steps.append(rng.choice([("raise",), ("raise-nested",)]))
        else:
            big = 5000 if small_window and i == 0 else rng.choice([1, 5000])
            steps.append(("send", {"type": "http.response.body", "body": b"data" * big, "more_body": False}))
        plan.append(steps)
    if rng.random() < 0.3:
        try:
            c.reset_stream(1)
            script.append(("send", c.data_to_send()))
        except Exception:  # noqa: BLE001
            pass
    tail = rng.choice(["none", "eof", "garbage"] + (["eof"] * 4 if small_window else []))
    if tail == "eof":
        script.append(("sleep", rng.choice([4.37, 0.71])))
        script.append(("eof",))
    elif tail == "garbage":
        script.append(("send", b"\x00\x00\x05\xff\x00\x00\x00\x00\x00hello"))
    return script, plan, "h2"


DATE = re.compile(rb"date: [^\r]*\r\n")


def normalise(res, alpn):
    """What must be the same on both workers."""
    cutoff = res.get("cutoff")
    if cutoff is not None:
        # the harness gave up waiting: what happened at the cut-off is the harness's doing
        res = dict(res)
        res["events"] = [e for e in res["events"] if e[0] < cutoff - 1e-9]
        if res["handler_done"] is not None and res["handler_done"] >= cutoff - 1e-9:
            res["handler_done"] = None
            res["handler_error"] = None
        res["leftovers"] = ["<still running at the cut-off>"]
    data = b"".join(d for _, k, d in res["events"] if k == "data" and d)
    timeline = {}
    total = 0
    for t, k, d in res["events"]:
        if k == "data" and d:
            total += len(d)
            timeline[round(t, 6)] = total
    closed = next((round(t, 6) for t, k, _ in res["events"] if k == "close"), None)
    if alpn == "h2":
        import h2.config
        import h2.connection
        import h2.events

        from .h2send import tolerate_empty_data_at_negative_window

        tolerate_empty_data_at_negative_window()
        cl = h2.connection.H2Connection(h2.config.H2Configuration(client_side=True, header_encoding=None))
        cl.initiate_connection()
        # pretend the requests were sent so that the client accepts the responses
        for sid in (1, 3, 5):
            cl.send_headers(sid, [(b":method", b"GET"), (b":path", b"/"), (b":scheme", b"https"), (b":authority", b"x")], end_stream=True)
        cl.data_to_send()
        view = []
        try:
            for ev in cl.receive_data(data):
                if isinstance(ev, h2.events.ResponseReceived):
                    view.append(("response", ev.stream_id, [(n, v) for n, v in ev.headers if n != b"date"]))
                elif isinstance(ev, h2.events.DataReceived):
                    view.append(("data", ev.stream_id, len(ev.data), bytes(ev.data[:8])))
                elif isinstance(ev, h2.events.StreamEnded):
                    view.append(("end", ev.stream_id))
                elif isinstance(ev, h2.events.StreamReset):
                    view.append(("reset", ev.stream_id, int(ev.error_code)))
                elif isinstance(ev, h2.events.ConnectionTerminated):
                    view.append(("goaway", ev.last_stream_id, int(ev.error_code)))
        except Exception as e:  # noqa: BLE001
            view.append(("client-error", type(e).__name__))
        # the interleaving of frames of different streams follows the task scheduler of the event loop: compare per stream
        per = {}
        for v in view:
            per.setdefault(v[1] if v[0] not in ("goaway", "client-error") else 0, []).append(v)
        wire = sorted(per.items())
        # the time line of an HTTP/2 connection depends on HPACK sizes of the date header only by a constant: keep it
        timeline = {t: None for t in timeline}
    else:
        wire = DATE.sub(b"date: X\r\n", data)
    apps = []
    for r in res["app"]:
        apps.append({"scope": r["scope"], "received": r["received"], "sends": r["sends"], "start": round(r["start"], 6),
                     "end": round(r.get("end", -1), 6)})
    return {"wire": wire, "timeline": sorted(timeline.items()), "closed_at": closed, "apps": apps,
            "handler_done": None if res["handler_done"] is None else round(res["handler_done"], 6),
            "handler_error": (None if res["handler_error"] is None else ("cancelled" if "ancel" in res["handler_error"] else res["handler_error"])), "leftovers": res["leftovers"],
            "recycle": res.get("recycle")}


def session_case(seed):
    rng = random.Random(seed)
    kind = rng.choice(["h1", "h1", "h1", "ws", "h2", "h2"])
    gen_h1.closing_not_last = False
    script, plan, alpn = {"h1": gen_h1, "ws": gen_ws, "h2": gen_h2}[kind](rng)
    closing_not_last = gen_h1.closing_not_last
    # Writes of the client that fall on the same virtual instant reach the two servers in different segmentations (the
    # asyncio stand-in takes them in one read, the trio client task yields between them): give every write its own
    # instant, so that both servers see the same reads at the same times.
    spaced = []
    for st in script:
        if st[0] == "sleep" and st[1] <= 0.0:
            continue
        if spaced and spaced[-1][0] != "sleep" and st[0] != "sleep":
            spaced.append(("sleep", 0.0137))
        spaced.append(st)
    script = spaced
    # graceful shutdown begins at some point of some sessions (context.terminated, as worker_serve sets it)
    rt = random.Random(seed ^ 0x5EED)
    if rt.random() < 0.2 and kind != "ws":
        at = rt.randrange(0, len(script) + 1)
        script = script[:at] + [("sleep", 0.0171), ("terminate",), ("sleep", 0.0171)] + script[at:]
    # likewise an application that answers on the very instant at which the reader resumes over input that is already
    # buffered (a pipelined request, surplus bytes, the client's EOF) races with the reader, and each runtime's scheduler
    # settles that race its own way: every application send (and failure, and return) gets its own instant too
    plan = [[x for st in steps for x in ((("sleep", 0.0071), st) if st[0] in ("send", "send!", "raise", "raise-nested", "raise-cancelled", "return") else (st,))]
            for steps in plan]
    T = rng.choice([5.0, 5.0, 1.0])
    # the worker's request budget (max_requests): whether this connection's requests exhaust it must not depend on the worker
    mx = random.Random(seed ^ 0xB0D6E7).choice([None, None, 1, 2, 3, 4])
    # read_timeout: how long a single read may wait for the client (not how long the protocol may take over what was read)
    rto = random.Random(seed ^ 0x7EAD).choice([None, None, None, 2.0, 4.0])
    out = {}
    for backend, run in (("asyncio", W.run_asyncio), ("trio", W.run_trio)):
        cfg = R.make_config(())
        cfg._log = R.RecLog([])
        cfg.keep_alive_timeout = T
        cfg.read_timeout = rto
        res = run(scripted(plan), cfg, script, alpn=alpn, tail=120.0, max_requests=mx)
        out[backend] = normalise(res, alpn)
    desc = {"seed": seed, "kind": kind, "T": T, "max_requests": mx, "read_timeout": rto, "steps": len(script), "instances": len(out["asyncio"]["apps"])}
    fails = []
    for key in ("apps", "wire", "closed_at", "handler_done", "handler_error", "leftovers", "timeline", "recycle"):
        if out["asyncio"][key] != out["trio"][key]:
            a, t = out["asyncio"][key], out["trio"][key]
            sig = "workers-differ:" + key
            trio_only_400 = asyncio_only_400 = False
            if key == "wire" and isinstance(a, bytes) and isinstance(t, bytes):
                # the wire as a list of responses; the two agree up to the last one, which on one worker is the server's own 400
                # (content-length: 0, connection: close) and on the other is missing or is the application's closing response
                pa, pt = (re.split(rb"(?=HTTP/1\.1 \d\d\d )", w) for w in (a, t))
                n = 0
                while n < min(len(pa), len(pt)) and pa[n] == pt[n]:
                    n += 1
                ra, rt = pa[n:], pt[n:]

                def own400(r):
                    return len(r) == 1 and r[0].startswith(b"HTTP/1.1 400 ") and b"content-length: 0\r\n" in r[0] and r[0].endswith(b"\r\n\r\n")

                def closing_or_nothing(r):
                    return len(r) == 0 or (len(r) == 1 and b"connection: close\r\n" in r[0].lower())

                trio_only_400 = own400(rt) and len(ra) <= 1     # asyncio: nothing, or the application's own answer in its place
                asyncio_only_400 = own400(ra) and closing_or_nothing(rt)
            if key == "wire" and (trio_only_400 or (asyncio_only_400 and closing_not_last)):
                # trio reports the client's EOF to the HTTP/1 parser even when it arrived while the reader was parked behind
                # an unanswered request; asyncio's `while not reader.at_eof()` then leaves without reading it
                sig = "F42:final-400-for-unprocessed-input-differs"
            fails.append({"signature": sig, "desc": desc, "asyncio": repr(a)[:600], "trio": repr(t)[:600],
                          "script": [s if s[0] != "send" else ("send", s[1][:60]) for s in script][:30]})
            break
    return desc, fails


def run(ctx):
    rng = ctx.rng
    cases, metas = [], []
    oracle_failures = []
    for i in range(ctx.scale(150, 2000, 600)):
        ops = gen_ops(rng, disciplined=rng.random() < 0.6)
        a = run_events_asyncio(ops)
        t = run_events_trio(ops)
        cases.append((f"(true, {ops_term(ops)})", C.V(a)))
        cases.append((f"(false, {ops_term(ops)})", C.V(t)))
        metas.append({"ops": ops, "asyncio": a})
        metas.append({"ops": ops, "trio": t})
    disagreements, err = [], None
    if ctx.mode != "search":
        failing, err = C.coq_failing(PROP, EV_PREAMBLE, "bool * list eop", "run_events", cases)
        for k in failing[:5]:
            disagreements.append({"case": metas[k], "model": C.coq_show(PROP, EV_PREAMBLE, "run_events", cases[k][0])[-300:]})
        disagreements.extend({"case": metas[k]} for k in failing[5:30])
    descs = []
    for i in range(ctx.scale(900, 5000, 1500)):
        d, f = session_case(ctx.seed * 86028121 + i)
        descs.append(d)
        oracle_failures.extend(f)
    dist = {"event_sequences": len(cases), "sessions": len(descs)}
    for d in descs:
        dist["kind:" + d["kind"]] = dist.get("kind:" + d["kind"], 0) + 1
    return {
        "evaluations": len(cases) + 2 * len(descs),
        "distinct_nontrivial": len({c[0] for c in cases}) + len({(d["kind"], d["steps"], d["instances"], d["T"]) for d in descs}),
        "rule": "event sequences: 1-12 operations (wait by a new task / set / clear), 60% respecting the discipline, on the real "
                "EventWrapper of each worker against its model.  Sessions: HTTP/1 pipelines (1-3 requests, bodies, chunked, "
                "HTTP/1.0, connection: close, expect, cut-short and malformed heads, 0-3 cuts, pauses up to 7 s, final EOF / reset), "
                "WebSocket sessions (messages, pings, close from either side, EOF), HTTP/2 sessions (1-3 streams, bodies, reset, EOF, "
                "garbage), applications with delays, failures and early returns; keep_alive_timeout 1 or 5 s; both real workers "
                "under virtual time, every observation compared for equality.",
        "samples": descs[:2] + descs[-1:],
        "disagreements": disagreements,
        "oracle_failures": oracle_failures,
        "model_eval_error": err,
        "distribution": dist,
        "assumptions": ["in-memory transports (asyncio StreamReader + writer stand-in, trio memory stream) in place of sockets",
                        "virtual clocks"],
    }


def known_still_fails(k):
    if k.get("signature", "").startswith("F42:"):
        # a pipelined, incomplete second request and the client's EOF arrive while the first request is unanswered
        script = [("send", b"POST /r0 HTTP/1.1\r\nHost: x\r\nContent-Length: 4\r\n\r\nxxxx"), ("send", b"GET /r1 HTTP/1.1\r\nHost: x\r\nCont"),
                  ("sleep", 2.0), ("eof",)]
        plan = [[("recv",), ("sleep", 6.0), ("send", {"type": "http.response.start", "status": 200, "headers": []}),
                 ("send", {"type": "http.response.body", "body": b"end", "more_body": False})]]
        wires = {}
        for backend, run in (("asyncio", W.run_asyncio), ("trio", W.run_trio)):
            cfg = R.make_config(())
            cfg._log = R.RecLog([])
            cfg.keep_alive_timeout = 5.0
            wires[backend] = normalise(run(scripted(plan), cfg, script, tail=60.0), None)["wire"]
        if wires["asyncio"] != wires["trio"]:
            return f"asyncio wrote {len(wires['asyncio'])} bytes, trio {len(wires['trio'])} (trio adds a 400)"
        return None
    return None


def replay(data):
    print(data)
    return 0
