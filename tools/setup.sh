#!/bin/bash
# Build the framework from files on disk only (offline): regenerate the generated Coq tables from
# /repo's working tree and compile the whole development (full .vo build).
set -u
cd "$(dirname "$0")/.."
mkdir -p coq/gen coq/cases evidence replays
/venv/bin/python translate/py2coq.py "${VERIF_REPO:-/repo}/src" coq/gen || echo "translator reported a failure (checks will report it)"
cd coq
coq_makefile -f _CoqProject -o Makefile > /dev/null
timeout 3000 make -j16 2>&1 | grep -v "conda.cli.condarc" | tail -40
exit 0
