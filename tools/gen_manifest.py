#!/usr/bin/env python3
"""Regenerate MANIFEST.json from the table below (keeps the file valid and in one place)."""
import json
from pathlib import Path

HERE = Path(__file__).resolve().parent.parent
CLAIMED = {
    "C19": dict(
        text="Machine-checked theorems (Coq 8.16) about a model of the CLI wiring, the loaders, bind parsing, "
             "root_path normalisation and the server headers; the CLI tables of the model are regenerated from "
             "__main__.py by a fail-closed translator on every run, the hand-written parts are tied to the code by "
             "differential execution (real hypercorn vs. the model evaluated inside Coq) plus an independent oracle "
             "built from the docs table. Right level: the property quantifies over every flag/value/loader/bind "
             "string, which the finite generated tables and structural induction cover completely.",
        design="7/C19",
        note="Trusted: Coq kernel + vm_compute, translate/py2coq.py, harness/c19.py, argparse tokenisation, TOML "
             "parser, module execution, socket(), format_date_time (CPython). int() modelled on signed ASCII "
             "decimals only. Modelled not verified: config.py setters/loaders/_create_sockets parsing, __main__.main.",
        technique="Coq proof over translator-generated tables + in-Coq differential correspondence",
    ),
    "C20": dict(
        text="Coq theorems about a model of the three middlewares: the trust boundary of ProxyFix for every header "
             "list, number of hops and attacker prefix (headers or comma elements), scope untouched with too few "
             "values, dispatcher first-match routing / 404-iff / lifespan fan-out for every order of completions, and "
             "the redirect URL. The model is tied to the code by differential execution of the real middleware "
             "classes (both dispatcher variants on real asyncio and trio) with metamorphic attacker-prefix oracles.",
        design="7/C20",
        note="Trusted: Coq kernel + vm_compute, harness/c20.py; deepcopy, urlunsplit, str.strip, dict order are "
             "CPython's (modelled). No-mutation of the caller's scope is checked on the implementation only (a "
             "functional model cannot express aliasing). Modelled not verified: middleware/*.py.",
        technique="Coq proof (induction over header/mount/completion lists) + in-Coq differential correspondence",
    ),
    "C14": dict(
        text="Coq theorems about a model of the Lifespan helper and of the use worker_serve makes of it, for every application script: "
             "serving starts only once the startup event is set, which only lifespan.startup.complete or the end of the application "
             "(return, or an exception = no lifespan support) can do; a failure reported by the application aborts whatever else it "
             "did; the application is handed lifespan.startup first and lifespan.shutdown second, each at most once.  Tied to the "
             "code by running the real Lifespan helpers of both workers, driven as worker_serve drives them under virtual time, "
             "against the model; the ordering against socket acceptance and connection draining and the per-connection copy of the "
             "lifespan state are checked on the real worker_serve of both workers over loopback sockets.",
        design="7/C14",
        note="Trusted: Coq kernel + vm_compute, harness (c14.py, rworker.py virtual loops). The model abstracts both helpers; it is "
             "validated on scripts without messages of the wrong phase.  Socket-level ordering ('before any listening socket accepts') "
             "and state isolation are observed on real sockets with real time (sampling), not proved: partial there.  F43 fixed "
             "(80aa3e2); F44 open (trio loses a lifespan failure reported after startup).  Modelled not verified: asyncio/lifespan.py, "
             "trio/lifespan.py, the lifespan part of both run.py.",
        technique="Coq proof (induction over application scripts) + in-Coq differential correspondence on both real Lifespan helpers + socket-level oracle on both real workers",
    ),
    "C15": dict(
        text="Coq theorems about the timing skeleton of worker_serve's shutdown sequence (one model for both workers): serve() returns "
             "within graceful_timeout + shutdown_timeout however many connections are stuck and for however long; a request that "
             "ends within the grace period is not cut short and shutdown waits for it; idle connections do not delay it.  Tied to "
             "the code by comparing the model's return instant with the measured one, and the property itself is checked on the "
             "real worker_serve of both workers over loopback sockets: shutdown triggered with connections that are idle, hold a "
             "partial head, run requests shorter / far longer than the grace period (up to five at once), an open HTTP/2 stream plus "
             "a new stream after the trigger, the worker's max_requests as the trigger; what each client sees, refused connections, "
             "lifespan.shutdown.",
        design="7/C15",
        note="Trusted: Coq kernel + vm_compute, harness (c15.py, c14.py Served). The model is deliberately small (arithmetic over handler "
             "durations); everything about which connections are closed, refused or completed is established by the socket-level "
             "oracle with real time and a slack of 0.25 s (sampling): partial.  asyncio / trio cancellation semantics are the "
             "runtimes'.  F16 (asyncio ignored graceful_timeout on CPython 3.12) fixed in 82d1bf3, F45 (END_STREAM lost under "
             "shutdown on trio) fixed in 83db352.  F9 (HTTP/2 keep_alive_max_requests drops in-flight responses) stays open under C02/C18.  "
             "Modelled not verified: the shutdown part of asyncio/run.py and trio/run.py.",
        technique="Coq proof (arithmetic lemmas over a timing model) + correspondence of the return instant + socket-level oracle on both real workers",
    ),
    "C16": dict(
        text="Coq theorems: the two EventWrapper implementations (asyncio clears its event in place, trio replaces the event object) wake "
             "the same tasks at the same operations for every operation sequence that respects the discipline by which hypercorn uses "
             "them (clear only when no task is waiting), and differ without it (witness); the idle-timer logic is one model for both "
             "TCPServer classes (C07).  Tied to the code by running the real EventWrapper classes against their models, and the "
             "property itself is checked by differential execution: the same timed client script and application behaviour on the real "
             "asyncio and trio TCPServer / TaskGroup / WorkerContext under virtual time, every observation compared for equality.",
        design="7/C16",
        note="Trusted: Coq kernel + vm_compute, harness (rworker.py, c16.py). The equality of whole sessions is established by sampling "
             "(differential execution), not proved: the per-worker classes are thin layers over two different runtimes whose "
             "scheduling and cancellation semantics are not modelled; events that fall on the same virtual instant are ordered by "
             "each runtime's scheduler and are avoided by the generator (incommensurable delays); HTTP/2 frames are compared per "
             "stream.  Open known finding F42 (a final 400 for unprocessed input differs between the workers).",
        technique="Coq proof (bisimulation of the two event semantics under a usage discipline) + in-Coq correspondence + differential execution of both real workers under virtual time",
    ),
    "C17": dict(
        text="Coq theorems about a model of WSGIWrapper: the body limit is exact for every segmentation of the body, "
             "the environ (path split by root_path, CONTENT_*/HTTP_* with repeated headers comma-joined in order) for "
             "every scope, pass-through of status/headers/chunks for eager and lazy start_response, close() exactly "
             "once for every application shape, and no call at all for a client that disconnects before its body is "
             "complete (finding F59, repaired). Tied to the code by differential execution through the real asyncio "
             "and trio WSGI middleware (real executor threads) and a PEP 3333 oracle.",
        design="7/C17",
        note="Trusted: Coq kernel + vm_compute, harness/c17.py; thread pool plumbing is asyncio's/trio's; 'off the "
             "event loop' is observed on the implementation only (thread identity). Modelled not verified: "
             "app_wrappers.py (WSGIWrapper, _build_environ).",
        technique="Coq proof (induction over message/header/step lists) + in-Coq differential correspondence",
    ),
    "C12": dict(
        text="Coq theorems about the HTTPStream and WSStream automata (guard ladders and version sets regenerated from "
             "the source by the translator): every message the ASGI reference automaton rejects raises and emits nothing "
             "(for every state and payload, with the accepted-though-invalid places listed and refuted by witness), at most "
             "one final response head for every interleaving of application messages, body and closure events, and no "
             "CR/LF/NUL survives header validation. Tied to the code by call-by-call differential execution of the real "
             "stream classes, an independent Python reference automaton, and protocol-level runs whose wire output is "
             "parsed by independent h11/h2 clients.",
        design="7/C12",
        note="Trusted: Coq kernel + vm_compute, translate/py2coq.py (ladders, version sets), harness (rig.py, streams.py, "
             "sched.py, c12.py, asgi_ref.py). h11/h2/wsproto are not modelled: h11's rejection of illegal field bytes and "
             "h2's lack of outbound checks are observed on the real libraries. Open known findings F31-F37 (accepted-"
             "though-invalid messages) are reported as KNOWN-FINDING. Modelled not verified: http_stream.py, ws_stream.py, "
             "utils.build_and_validate_headers.",
        technique="Coq proof by symbolic execution of the monadic stream model + in-Coq differential correspondence",
    ),
    "C10": dict(
        text="Coq theorems about WebsocketBuffer and WSStream._handle_events: reassembly is exact for every message "
             "sequence and every fragmentation with pings in between, every ping is answered with its payload, the "
             "stream automaton realises this for any split into network reads while no message exceeds the limit, the "
             "fragment crossing the limit is answered 1009 and nothing is ever delivered afterwards. Tied to the code by "
             "call-by-call differential execution of the real WSStream and an end-to-end oracle with a real wsproto "
             "client over both carriers, with and without permessage-deflate.",
        design="7/C10",
        note="Trusted: Coq kernel + vm_compute, harness (streams.py, wsrig.py, sched.py, c10.py). wsproto's frame codec, "
             "UTF-8 decoding and permessage-deflate are not modelled (the model consumes wsproto's event stream); a "
             "wsproto 1.3.2 defect with control frames inside compressed fragmented messages is documented in DESIGN.md. "
             "Modelled not verified: ws_stream.py.",
        technique="Coq proof (induction over event / fragment lists) + in-Coq differential correspondence",
    ),
    "C11": dict(
        text="Coq theorems about Handshake and WSStream: validity is characterised exactly (HTTP/1.1 with key, "
             "Connection token upgrade, Upgrade websocket, version 13; or extended CONNECT with version 13; never "
             "HTTP/1.0), a request leads to 404/400 with no application or to exactly one application whose first message "
             "is websocket.connect, accept is rendered faithfully (status by carrier, token iff key, only an offered "
             "subprotocol, extra headers in order, no pseudo / sec-websocket-protocol extras), and the disconnect code is "
             "1000 / the client's code / 1006, delivered exactly once. Tied to the code by call-by-call differential "
             "execution of the real WSStream and an RFC 6455/8441 oracle over raw upgrade requests x application "
             "decisions x closing orders on both carriers with independent h11/h2/wsproto clients.",
        design="7/C11",
        note="Trusted: Coq kernel + vm_compute, harness (streams.py, wsrig.py, sched.py, c11.py). The accept token "
             "(SHA-1/base64) and extension negotiation are wsproto's: the model takes them as parameters and the harness "
             "checks the token with an independent computation. Modelled not verified: ws_stream.py.",
        technique="Coq proof (case analysis / symbolic execution of the monadic model) + in-Coq differential correspondence",
    ),
    "C01": dict(
        text="Coq theorems: the scope is exactly the split / percent-decoded / copied request (make_scope_spec, unquote laws), exactly one application per request, every body event becomes one message with the same bytes and EndBody the single final one, nothing after closure, a request is only parsed from h11's IDLE state. Tied to the code by protocol-level and stream-level differential execution and an end-to-end oracle comparing what each application received with what the client sent, for every framing, k-way splits, queue sizes and random schedules.",
        design="7/C01",
        note="Trusted: Coq kernel + vm_compute, translate/py2coq.py, harness (h11rig.py with library proxies, h11gen.py, http1e2e.py, streams.py, sched.py). h11's parser/serialiser are not modelled (received events and returned bytes are recorded oracle values); h11's state machine is modelled (LibH11.v, a port of h11/_state.py) and cross-checked against the real library after every call. HTTP/2 and both-worker coverage of this property comes from the C08/C09/C16 rigs. Open known finding F14 (application queue full at closure) is reported as KNOWN-FINDING.",
        technique="Coq proof (symbolic execution of the monadic models, exhaustive vm_compute over the h11 state space) + in-Coq differential correspondence",
    ),
    "C02": dict(
        text='Coq theorems: bodies omitted exactly for HEAD/1xx/204/304, every run the ASGI reference automaton accepts is accepted, body chunks reach the protocol in order and unchanged (concatenation preserved), end-of-response at most once and one final head for every interleaving, the h11 head is app headers ++ server headers ++ connection: close at the maximum. End-to-end: an independent h11 client recovers status, headers, body and completeness.',
        design="7/C02",
        note="Trusted: Coq kernel + vm_compute, translate/py2coq.py, harness (h11rig.py with library proxies, h11gen.py, http1e2e.py, streams.py, sched.py). h11's parser/serialiser are not modelled (received events and returned bytes are recorded oracle values); h11's state machine is modelled (LibH11.v, a port of h11/_state.py) and cross-checked against the real library after every call. HTTP/2 and both-worker coverage of this property comes from the C08/C09/C16 rigs. Open known finding F14 (application queue full at closure) is reported as KNOWN-FINDING.",
        technique="Coq proof (symbolic execution of the monadic models, exhaustive vm_compute over the h11 state space) + in-Coq differential correspondence",
    ),
    "C05": dict(
        text='Coq theorems: on application exit a complete 500 with connection: close iff nothing had been started, otherwise no end-of-body; the connection is reused only when h11 saw both messages complete (our side reaches DONE only through EndOfMessage), else closed. End-to-end: scripted applications raising / returning at every point; the client parser must see a 500 or a visibly incomplete response and nothing more is served.',
        design="7/C05",
        note="Trusted: Coq kernel + vm_compute, translate/py2coq.py, harness (h11rig.py with library proxies, h11gen.py, http1e2e.py, streams.py, sched.py). h11's parser/serialiser are not modelled (received events and returned bytes are recorded oracle values); h11's state machine is modelled (LibH11.v, a port of h11/_state.py) and cross-checked against the real library after every call. HTTP/2 and both-worker coverage of this property comes from the C08/C09/C16 rigs. Open known finding F14 (application queue full at closure) is reported as KNOWN-FINDING.",
        technique="Coq proof (symbolic execution of the monadic models, exhaustive vm_compute over the h11 state space) + in-Coq differential correspondence",
    ),
    "C06": dict(
        text='Coq theorems over the h11 state-machine model (exhaustive over its 648 states) and the protocol model: a request is parsed only from IDLE and leaves IDLE, nothing but start_next_cycle returns to IDLE, the cycle restarts only from DONE/DONE and never without keep-alive, reuse iff not terminated and both DONE else close (reader released either way), close announced at the request maximum. Whole runs (Hoare logic over the monadic protocol model, invariants Serial and Capped carried through every step of every run): the stream slot is never overwritten while it holds a stream, no request is taken on once keep_alive_max_requests have been counted, and none once keep-alive is off (Connection: close, HTTP/1.0, a response that announced close), unless the event oracle breaks the contract of the h11 library. End-to-end: pipelines x segmentations x application behaviours with byte-offset checks that instance k+1 starts after k complete responses.',
        design="7/C06",
        note="Trusted: Coq kernel + vm_compute, translate/py2coq.py, harness (h11rig.py with library proxies, h11gen.py, http1e2e.py, streams.py, sched.py). h11's parser/serialiser are not modelled (received events and returned bytes are recorded oracle values); h11's state machine is modelled (LibH11.v, a port of h11/_state.py) and cross-checked against the real library after every call. HTTP/2 and both-worker coverage of this property comes from the C08/C09/C16 rigs. Open known finding F14 (application queue full at closure) is reported as KNOWN-FINDING.",
        technique="Coq proof (symbolic execution of the monadic models, exhaustive vm_compute over the h11 state space) + in-Coq differential correspondence",
    ),
    "C18": dict(
        text='Coq theorems: connection: close at keep_alive_max_requests and its consequence in the h11 state machine (no further cycle, no further request), lifted to whole runs of the protocol model (C18_keepalive_cap_whole_run: on no run is a request taken on after keep_alive_max_requests have been counted, unless the event oracle breaks the contract of the h11 library), worker recycling exactly when requests > max_requests + jitter for every draw. Correspondence/oracles: keep-alive cap end to end, heads around h11_max_incomplete_size in 1-5 pieces, HTTP/2 limits read back from the library objects, mark_request of both worker contexts against the model.',
        design="7/C18",
        note="Trusted: Coq kernel + vm_compute, translate/py2coq.py, harness (h11rig.py with library proxies, h11gen.py, http1e2e.py, streams.py, sched.py). h11's parser/serialiser are not modelled (received events and returned bytes are recorded oracle values); h11's state machine is modelled (LibH11.v, a port of h11/_state.py) and cross-checked against the real library after every call. HTTP/2 and both-worker coverage of this property comes from the C08/C09/C16 rigs. Open known finding F14 (application queue full at closure) is reported as KNOWN-FINDING.",
        technique="Coq proof (symbolic execution of the monadic models, exhaustive vm_compute over the h11 state space) + in-Coq differential correspondence",
    ),
    "C03": dict(
        text="Coq theorems about the HTTPStream and WSStream models: for every sequence of application messages (valid or not, "
             "including the end of the application), request-body events and closure events in any order, the access records "
             "written plus the one already due add up to exactly the one due at the end, and likewise the disconnect messages "
             "(hence at most one of each, exactly one once the stream is closed); once closed, events deliver nothing and a message "
             "from the application is accepted or rejected without anything being delivered; a second WebSocket closure delivers "
             "nothing.  Tied to the code by call-by-call differential execution of the real stream classes and by end-to-end "
             "closure sessions (HTTP/1, HTTP/2, WebSocket over both, both server-loop flavours) observing every message put into "
             "every application queue, every send() result and the access records per stream object.",
        design="7/C03",
        note="Trusted: Coq kernel + vm_compute, translate/py2coq.py (guard ladders), harness (streams.py, rig.py, sched.py, wsrig.py, h2rig.py, "
             "c03.py). The theorems are about one stream; that each protocol tells a stream at most once that it is closed "
             "(_close_stream pops before notifying) and the races between reader, application, send task and server close are "
             "covered by the end-to-end sessions only (sampling): partial there. The HTTP theorem excludes trailers before the "
             "response start (open finding F31). F29, F40 fixed (f175b5e, 2621c77); F14 (queue full at closure) open. Modelled not "
             "verified: http_stream.py, ws_stream.py.",
        technique="Coq proof (per-step accounting lemmas by symbolic execution + induction over input sequences) + in-Coq differential correspondence",
    ),
    "C04": dict(
        text="Coq theorems about the HTTP/2 connection as a transition system (model.H2Send) whose reader labels are the events h2 "
             "hands to _handle_events (request, DATA, END_STREAM, RST_STREAM, WINDOW_UPDATE, SETTINGS, PRIORITY on open / closed / "
             "idle streams with parents, loss of the connection), interleaved in every way with the application tasks and the send "
             "task: the dictionary / priority-tree operations that raise on a missing key are never reached with one (no exception "
             "escapes the reader), the send task survives a stream left in the tree without a buffer, and an event or step on "
             "stream s leaves every other stream's state untouched while a stream with data and window is still served.  On the "
             "HTTP/1 side (model.H11Proto): a connection that is not reused ends marked closed with its reader released, and a "
             "released reader of a closed protocol leaves without consulting the parser again and ignores further input - the "
             "handler terminates (findings F57, F64, repaired); closed is final along every run (proofs/Final_proofs.v: any "
             "state predicate that every field update preserves holds in every state every run reaches).  Tied to "
             "the code by step-by-step differential execution, and by byte-level fuzzing of the real stack (random bytes, mutated "
             "HTTP/1, HTTP/2 and WebSocket sessions, grammar-generated rare HTTP/2 sequences around a victim stream, every input in "
             "random segmentation, both server-loop flavours) judged by independent h11/h2 parsers.",
        design="7/C04",
        note="Trusted: Coq kernel + vm_compute, harness (h2send.py, c04.py, sched.py), h11/h2/wsproto as oracles of what is malformed. "
             "The proof covers the HTTP/2 connection level only: byte parsing (h11, h2, hpack, wsproto) is not modelled, and 'malformed "
             "HTTP/1 is answered with the hinted 4xx and closed' / 'HTTP/2 violations end with GOAWAY' are established by the "
             "end-to-end oracles (sampling), hence partial there. F1, F2, F3, F4, F39 fixed (9f2fda3, 7522217, cf41a6c, 36b3339, "
             "612d5c8), F52 fixed (a4e02d6: non-ASCII :method, reset after the client's GOAWAY). The receive-side credit (DATA on a "
             "finished stream is acknowledged) and the reader's robustness on refused streams are covered by oracles only. Open known "
             "finding F14 (application queue full at closure; on HTTP/2 it parks the reader) is reported as KNOWN-FINDING. "
             "Modelled not verified: protocol/h2.py (_handle_events, _window_updated, _priority_updated, _create_stream, "
             "_close_stream, _send_data).",
        technique="Coq proof (inductive invariant: every registered buffer is in the priority tree; frame lemmas) + in-Coq differential correspondence + parser-oracle fuzzing",
    ),
    "C07": dict(
        text="Coq theorems about the idle-timer logic of TCPServer (one restartable timer driven by Updated(idle=...), Closed, the end of "
             "reading and shutdown): armed for exactly keep_alive_timeout, fires at exactly its deadline and never earlier, at once "
             "on shutdown, disarmed while busy (nothing but an explicit Closed closes an unarmed connection), never re-armed once "
             "reading is over, the transport closed at most once.  Tied to the code by replaying, through the model, the events the "
             "real asyncio and trio TCPServer objects received under virtual time and comparing the closing instant exactly; the "
             "property itself is checked end to end on both real TCPServer classes by an oracle of 'idle since' written from the "
             "property text (pauses at every point of HTTP/1 histories, peer loss at every point incl. a parked pipelined request, "
             "WebSocket, HTTP/2, shutdown).",
        design="7/C07",
        note="Trusted: Coq kernel + vm_compute, harness (rworker.py: virtual-time asyncio loop and trio MockClock with in-memory transports, "
             "c07.py). Which Updated events the protocols emit is proved for HTTP/1 only (H11Proto: recycle_outcome, request -> "
             "Updated(false)); for HTTP/2 and WebSocket it is observed end to end.  asyncio/trio cancellation and task-group semantics "
             "are the runtimes' (real, not modelled).  F41 fixed (08e460d).  Open known findings F10 (error response inside a stream: "
             "never idle-closed), F11 (prior-knowledge HTTP/2: never idle-closed).  Modelled not verified: asyncio/tcp_server.py, "
             "trio/tcp_server.py (idle timer), worker_context SingleTask.",
        technique="Coq proof (lemmas over a timed event model) + in-Coq differential correspondence on traces of the real TCPServer classes under virtual time",
    ),
    "C08": dict(
        text="Coq theorems about a transition system of the HTTP/2 send path (StreamBuffer push/pop/drain/close, send_task, _send_data, "
             "the Body/EndBody/StreamClosed branches of stream_send, _window_updated, StreamReset and Closed handling) whose labels are "
             "the points at which the real tasks can be scheduled: for every interleaving and every client behaviour a stream's buffer "
             "stays below HIGH + 2m (m the largest body message; HIGH/LOW regenerated from the source), no sender is left waiting on "
             "a stream that can no longer send or on a closed connection, the send task is woken on close, steps on one stream leave "
             "the others untouched and a stream with data and window is served regardless.  Tied to the code by step-by-step "
             "differential execution of the real H2Protocol/h2/priority under explicit scheduling, and by end-to-end pressure sessions "
             "(HTTP/2, HTTP/1 with a paused transport, WebSocket over HTTP/2).",
        design="7/C08",
        note="Trusted: Coq kernel + vm_compute, translate/py2coq.py (constants), harness (h2send.py, h2rig.py, sched.py, c08.py). h2's window "
             "arithmetic and priority's next() enter the model as contracts validated at every step against the real libraries. The "
             "transport-level half of the property (writer.drain / send_all high-water marks) is the runtime's and is only observed "
             "end to end on the rig's paused transport: partial there. 'Returns promptly' is proved as 'the event the sender waits on is "
             "set' (not_stuck); that the scheduler then runs the sender is the runtime's fairness. F6, F7/F22 fixed (28cda5a, 435ce46). "
             "Open known finding F49 (WebSocket over HTTP/2: the reader itself is parked in StreamBuffer.push with the echo of a "
             "client's close frame or a pong when the client grants no credit - the LTS has no label for a push by the reader) is "
             "reported as KNOWN-FINDING. "
             "Modelled not verified: protocol/h2.py (StreamBuffer, send_task, _send_data, stream_send, _window_updated, _close_stream).",
        technique="Coq proof (inductive invariants over all label sequences of an LTS) + in-Coq step-by-step differential correspondence",
    ),
    "C09": dict(
        text="Coq theorems about the same transition system: every DATA frame written is non-empty and fits the stream window, the "
             "connection window and the maximum frame size as they stand when it is written (along every run; the connection window "
             "is never overdrawn); what is written for a stream is, in order, a prefix of what its application pushed, END_STREAM at "
             "most once, only after everything was written, nothing after it; the send task is asleep only when no stream has data "
             "and window or a pending END_STREAM (no lost wake-up), a stream with data and window is served whatever the others do, and "
             "the send task cannot spin (a measure decreases at every iteration).  Tied to the code as for C08, plus end-to-end "
             "sessions in which an independent h2 client is the flow-control oracle.",
        design="7/C09",
        note="Trusted: Coq kernel + vm_compute, harness (h2send.py, h2rig.py, sched.py, c09.py), the h2 client used as oracle. Liveness is "
             "proved in its safety form (no state in which the send task sleeps while something is sendable; strict variant for the "
             "loop); the scheduler's fairness is assumed. PRIORITY trees are the priority library's: the model takes next()'s pick as "
             "an oracle input constrained to eligible streams (checked on every real pick), PRIORITY frames are exercised end to end "
             "only. F5 fixed (5bb114b). Modelled not verified: protocol/h2.py send path.",
        technique="Coq proof (inductive invariants + trace property + variant over an LTS) + in-Coq step-by-step differential correspondence",
    ),
    "C13": dict(
        text="Coq theorems about ProtocolWrapper / _check_protocol: the protocol is a function of how the client opens the "
             "connection (ALPN h2, prior-knowledge preface, Upgrade: h2c without a body, WebSocket upgrade, else HTTP/1.x; h2c "
             "with a body ignored), the 101 precedes the switch, and at a switch HTTP/2 receives exactly the bytes h11 had not "
             "consumed (plus the preface line for prior knowledge) and every later read. Tied to the code by wrapper-level "
             "differential execution and by end-to-end runs of every opening at its split points, driven by a real h2 client.",
        design="7/C13",
        note="Trusted: Coq kernel + vm_compute, harness (c13.py, h11rig.py, sched.py). h11's contract consumed ++ trailing_data = fed is "
             "assumed (trailing_data is an oracle value), segmentation independence of the HTTP parsers is observed end to end, not "
             "proved. F23/F24 (h2c and push crashing with h2 >= 4.2) fixed in 950c3a3. Modelled not verified: protocol/__init__.py, "
             "H11Protocol._check_protocol, H2CProtocolRequiredError.",
        technique="Coq proof (characterisation lemmas over the wrapper model) + in-Coq differential correspondence + exhaustive split points",
    ),
}
NOT_APPLICABLE = {}
PENDING_REASON = "check not built yet in this session (planned: Coq model + proof + correspondence, see DESIGN.md section 7)"

props = [json.loads(l) for l in (HERE / "properties.jsonl").read_text().splitlines() if l.strip()]
checks = []
na = []
for p in props:
    pid = p["id"]
    if pid in CLAIMED:
        c = CLAIMED[pid]
        checks.append({
            "property_id": pid,
            "quick_cmd": f"./check {pid} --tier quick",
            "thorough_cmd": f"./check {pid} --tier thorough",
            "evidence_file": f"/verif/evidence/{pid}.json",
            "replay_cmd_template": f"./check {pid} --replay {{path}}",
            "engine": "coq-model+correspondence",
            "level_claimed": {"category": "proof", "text": c["text"], "design_ref": c["design"]},
            "level_note": c["note"],
            "technique": c["technique"],
        })
    else:
        na.append({"property_id": pid, "reason": NOT_APPLICABLE.get(pid, PENDING_REASON)})
manifest = {
    "version": 1,
    "setup_cmd": "./tools/setup.sh",
    "hooks": {
        "guard": "HYPERCORN_VERIF",
        "enable": "no source hooks are needed: every collaborator is injected through hypercorn's own typing.Protocols; "
                  "checks import /repo/src directly (PYTHONPATH=/repo/src)",
        "baseline_off_cmd": "./tools/baseline_off.sh",
        "source_commits": [],
        "add_only": True,
    },
    "engines": [{
        "name": "coq-model+correspondence",
        "path": "/verif/check",
        "serves_properties": sorted(CLAIMED),
        "kind_free_text": "Coq 8.16 theorems over executable Gallina models; translator py2coq.py; differential "
                          "correspondence evaluated inside Coq (vm_compute) against the real code",
    }],
    "checks": checks,
    "notes": "fix: commits in /repo so far: see known_findings.json (status fixed).",
    "not_applicable": na,
}
(HERE / "MANIFEST.json").write_text(json.dumps(manifest, indent=1) + "\n")
print("claimed", sorted(CLAIMED), "pending", len(na))
