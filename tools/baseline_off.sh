#!/bin/bash
# The repository's own test suite with the (reserved, unused) guard off.
unset HYPERCORN_VERIF
cd /repo && /venv/bin/python -m pytest -ra -q -p no:cacheprovider --timeout=900 --continue-on-collection-errors "$@"
